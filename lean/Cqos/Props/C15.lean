import Cqos.Props.C01
import Cqos.Props.C02
import Cqos.Lemmas.SortDesc
import Cqos.Lemmas.AssocList
/-
  Property C15 — the divider contract is honoured and divider faults fail safe.

  * every divider call recorded in the machine's call log has a priority list that is
    strictly decreasing (sorted from highest to lowest, distinct), a sub-list of the
    priorities configured at that moment, and a dividend `≤ HandlersQuantity`
    (v2: always through `safeDivide` with a non-nil map, by construction of the model);
  * a round division whose added total is neither 0 nor the dividend moves the machine to
    `drain (some dividerBad)`; from there no delivery is ever enabled again, the capacity
    bound (C01, unconditional) still holds, and the machine terminates with that error once
    the in-flight items are released;
  * v2 `New` (`prepare`) returns ErrDividerBad exactly for such a fault at creation and
    ErrHandlersQuantityTooSmall exactly when the sum is right but some configured priority's
    share is zero (the repaired check; the unrepaired one is kept as a counterexample).
-/
namespace Cqos.C15

/-! ### safeDivide -/

/-- `safeDivide` rejects exactly: a non-zero total after the call whose increase differs
    from the dividend (a decrease counts as a difference) -/
theorem safeDivide_err_iff (div : List Nat → Nat → Dist → Dist) (ps : List Nat) (d : Nat) (m : Dist) :
    (safeDivide div ps d m).2 = some .dividerBad ↔
      ((div ps d m).total ≠ 0 ∧ ((div ps d m).total < m.total ∨ (div ps d m).total - m.total ≠ d)) := by
  unfold safeDivide
  simp only
  by_cases h0 : (div ps d m).total = 0
  · simp [h0]
  · simp only [h0, if_false]
    by_cases h1 : (div ps d m).total < m.total
    · simp [h1, h0]
    · simp only [h1, if_false]
      by_cases h2 : (div ps d m).total - m.total ≠ d
      · simp [h2, h0]
      · simp only [h2, if_false]; simp only [ne_eq, Decidable.not_not] at h2; simp [h0, h1, h2]

theorem safeDivide_err_only (div : List Nat → Nat → Dist → Dist) (ps : List Nat) (d : Nat) (m : Dist) (e : Err)
    (h : (safeDivide div ps d m).2 = some e) : e = .dividerBad := by
  unfold safeDivide at h
  simp only at h
  split at h
  · cases h
  · split at h
    · cases h; rfl
    · split at h
      · cases h; rfl
      · cases h

/-- on a zeroed map (every round division): rejected iff the added total is neither 0 nor
    the dividend -/
theorem round_division_err_iff (div : List Nat → Nat → Dist → Dist) (ps : List Nat) (d : Nat) (t : Dist) :
    (safeDivide div ps d t.zeroAll).2 = some .dividerBad ↔
      ((div ps d t.zeroAll).total ≠ 0 ∧ (div ps d t.zeroAll).total ≠ d) := by
  rw [safeDivide_err_iff]
  simp

/-! ### fail-safe -/

/-- the machine has failed: it only drains feedback and terminates with the error -/
def Failed (s : St) (e : Err) : Prop := s.pc = .drain (some e) ∨ s.pc = .done (some e)

/-- **C15 (fail-safe).** Once failed, always failed — with the same error — and nothing is
    delivered any more, whatever the environment and the discipline do. -/
theorem c15_failsafe_step (div : DivFn) (s s' : St) (a : Act) (e : Err) (hinv : Inv s) (h : Failed s e)
    (hs : step div s a = some s') : Failed s' e ∧ s'.delivered = s.delivered := by
  rcases h with hpc | hpc
  · cases a with
    | arrive c x => obtain ⟨ch, _, _, rfl⟩ := step_arrive hs; exact ⟨Or.inl hpc, rfl⟩
    | close c => obtain ⟨ch, _, rfl⟩ := step_close hs; exact ⟨Or.inl hpc, rfl⟩
    | release p => obtain ⟨_, rfl⟩ := step_release hs; exact ⟨Or.inl hpc, rfl⟩
    | stop => obtain ⟨_, rfl⟩ := step_stop hs; exact ⟨Or.inl hpc, rfl⟩
    | graceful => obtain ⟨_, rfl⟩ := step_graceful hs; exact ⟨Or.inl hpc, rfl⟩
    | top c => have := (step_top hs).1; rw [hpc] at this; cases this
    | «calc» => have := (step_calc hs).1; rw [hpc] at this; cases this
    | recalc => have := (step_recalc hs).1; rw [hpc] at this; cases this
    | endRound => obtain ⟨ph, h1, _⟩ := step_endRound hs; rw [hpc] at h1; cases h1
    | limitedStop => obtain ⟨k, h1, _⟩ := step_limitedStop hs; rw [hpc] at h1; cases h1
    | exit =>
      obtain ⟨e', h1, _, rfl⟩ := step_exit hs
      rw [hpc] at h1; cases h1
      exact ⟨Or.inr rfl, rfl⟩
    | consume p =>
      obtain ⟨hp, hc⟩ := step_consume hs
      rcases hc with ⟨h1, _⟩ | ⟨k, h1, _⟩ | ⟨e', h1, _, rfl⟩
      · rw [hpc] at h1; cases h1
      · rw [hpc] at h1; cases h1
      · obtain ⟨h1', _, _, _, _⟩ := decActual_spec { s with pending := s.pending.erase p } p s.pending hinv.core hp rfl
        refine ⟨Or.inl (by rw [h1']; exact hpc), ?_⟩
        unfold decActual; split <;> rfl
    | stopSeen =>
      obtain ⟨_, _, hc⟩ := step_stopSeen hs
      rcases hc with ⟨h1, _⟩ | ⟨ph, p, rest, h1, _⟩ | ⟨k, h1, _⟩ | ⟨e', h1, rfl⟩
      · rw [hpc] at h1; cases h1
      · rw [hpc] at h1; cases h1
      · rw [hpc] at h1; cases h1
      · rw [hpc] at h1; cases h1; exact ⟨Or.inr rfl, rfl⟩
    | pollItem => obtain ⟨ph, p, rest, h1, _⟩ := step_poll_pc (Or.inl rfl) hs; rw [hpc] at h1; cases h1
    | pollDrop => obtain ⟨ph, p, rest, h1, _⟩ := step_poll_pc (Or.inr (Or.inl rfl)) hs; rw [hpc] at h1; cases h1
    | pollClosed => obtain ⟨ph, p, rest, h1, _⟩ := step_poll_pc (Or.inr (Or.inr (Or.inl rfl))) hs; rw [hpc] at h1; cases h1
    | pollEmpty => obtain ⟨ph, p, rest, h1, _⟩ := step_poll_pc (Or.inr (Or.inr (Or.inr (Or.inl rfl)))) hs; rw [hpc] at h1; cases h1
    | skip => obtain ⟨ph, p, rest, h1, _⟩ := step_poll_pc (Or.inr (Or.inr (Or.inr (Or.inr rfl)))) hs; rw [hpc] at h1; cases h1
  · cases a with
    | arrive c x => obtain ⟨ch, _, _, rfl⟩ := step_arrive hs; exact ⟨Or.inr hpc, rfl⟩
    | close c => obtain ⟨ch, _, rfl⟩ := step_close hs; exact ⟨Or.inr hpc, rfl⟩
    | release p => obtain ⟨_, rfl⟩ := step_release hs; exact ⟨Or.inr hpc, rfl⟩
    | stop => obtain ⟨_, rfl⟩ := step_stop hs; exact ⟨Or.inr hpc, rfl⟩
    | graceful => obtain ⟨_, rfl⟩ := step_graceful hs; exact ⟨Or.inr hpc, rfl⟩
    | top c => have := (step_top hs).1; rw [hpc] at this; cases this
    | «calc» => have := (step_calc hs).1; rw [hpc] at this; cases this
    | recalc => have := (step_recalc hs).1; rw [hpc] at this; cases this
    | endRound => obtain ⟨ph, h1, _⟩ := step_endRound hs; rw [hpc] at h1; cases h1
    | limitedStop => obtain ⟨k, h1, _⟩ := step_limitedStop hs; rw [hpc] at h1; cases h1
    | exit => obtain ⟨e', h1, _⟩ := step_exit hs; rw [hpc] at h1; cases h1
    | consume p =>
      obtain ⟨_, hc⟩ := step_consume hs
      rcases hc with ⟨h1, _⟩ | ⟨k, h1, _⟩ | ⟨e', h1, _⟩ <;> (rw [hpc] at h1; cases h1)
    | stopSeen =>
      obtain ⟨_, _, hc⟩ := step_stopSeen hs
      rcases hc with ⟨h1, _⟩ | ⟨ph, p, rest, h1, _⟩ | ⟨k, h1, _⟩ | ⟨e', h1, _⟩ <;> (rw [hpc] at h1; cases h1)
    | pollItem => obtain ⟨ph, p, rest, h1, _⟩ := step_poll_pc (Or.inl rfl) hs; rw [hpc] at h1; cases h1
    | pollDrop => obtain ⟨ph, p, rest, h1, _⟩ := step_poll_pc (Or.inr (Or.inl rfl)) hs; rw [hpc] at h1; cases h1
    | pollClosed => obtain ⟨ph, p, rest, h1, _⟩ := step_poll_pc (Or.inr (Or.inr (Or.inl rfl))) hs; rw [hpc] at h1; cases h1
    | pollEmpty => obtain ⟨ph, p, rest, h1, _⟩ := step_poll_pc (Or.inr (Or.inr (Or.inr (Or.inl rfl)))) hs; rw [hpc] at h1; cases h1
    | skip => obtain ⟨ph, p, rest, h1, _⟩ := step_poll_pc (Or.inr (Or.inr (Or.inr (Or.inr rfl)))) hs; rw [hpc] at h1; cases h1

theorem c15_failsafe_run (div : DivFn) (acts : List Act) (s s' : St) (e : Err) (hinv : Inv s) (h : Failed s e)
    (hr : run div s acts = some s') : Failed s' e ∧ s'.delivered = s.delivered := by
  induction acts generalizing s with
  | nil => simp [run] at hr; subst hr; exact ⟨h, rfl⟩
  | cons a as ih =>
    simp only [run] at hr
    split at hr
    · rename_i s1 hs1
      obtain ⟨h1, hd1⟩ := c15_failsafe_step div s s1 a e hinv h hs1
      obtain ⟨h2, hd2⟩ := ih s1 (C01.step_inv div s s1 a hinv hs1).1 h1 hr
      exact ⟨h2, by rw [hd2, hd1]⟩
    · cases hr

/-- **C15 (a rejected round division fails the discipline).** If `calcTactic` or
    `recalcTactic` reports an error, the next control state is `drain (some e)`. -/
theorem c15_calc_fault (div : DivFn) (s : St) (e : Err) (hle : ¬ s.cfg.H < s.actual.total)
    (hv : (calcTacticWith (div s.calls) s.prios s.actual s.strategic s.tactic (s.cfg.H - s.actual.total)).verdict = .error e) :
    Failed (stepCalc div s) e := by
  left
  simp only [stepCalc, hle, if_false, hv]

theorem c15_recalc_fault (div : DivFn) (s : St) (e : Err)
    (hv : (recalcTacticWith div s.calls s.cfg.H s.prios s.actual s.tactic).verdict = .error e) :
    Failed (stepRecalc div s) e := by
  left
  simp only [stepRecalc, hv]

/-- the base division of a round is rejected exactly when its added total is neither 0 nor
    the number of vacant handlers -/
theorem c15_base_fault_iff (div : List Nat → Nat → Dist → Dist) (prios : List Nat)
    (actual strategic tactic : Dist) (vacants : Nat) :
    (calcBase div prios actual strategic tactic vacants).2 = .error .dividerBad ↔
      ((div (uncrowded prios actual strategic) vacants tactic.zeroAll).total ≠ 0 ∧
       (div (uncrowded prios actual strategic) vacants tactic.zeroAll).total ≠ vacants) := by
  rw [← round_division_err_iff]
  unfold calcBase
  simp only
  constructor
  · intro h
    split at h
    · rename_i t e heq
      cases h
      simp [heq]
    · cases h
  · intro h
    split
    · rename_i t e heq
      rw [heq] at h
      simp only [Option.some.injEq] at h
      subst h; rfl
    · rename_i t heq
      rw [heq] at h; cases h

/-- **C15 (termination after a fault).** In `drain`, with every in-flight item released:
    the pending releases can be consumed one by one, and once none is left `actual` is all
    zero and the discipline terminates with the recorded error. -/
theorem c15_drain_progress (div : DivFn) (s : St) (e : Option Err) (hinv : Inv s) (hpc : s.pc = .drain e) :
    (s.actual.allZero = true → ∃ s', step div s .exit = some s' ∧ s'.pc = .done e) ∧
    (s.actual.allZero = false → ∀ p ∈ s.pending, ∃ s', step div s (.consume p) = some s' ∧
        s'.pending.length + 1 = s.pending.length ∧ s'.pc = .drain e) ∧
    (s.inflight.total = 0 → s.pending = [] → s.actual.allZero = true) := by
  refine ⟨fun hz => ⟨{ s with pc := .done e }, by simp [step, hpc, hz], rfl⟩, fun hz p hp => ?_, fun hi hp => ?_⟩
  · obtain ⟨h1, _, _, h4, _⟩ := decActual_spec { s with pending := s.pending.erase p } p s.pending hinv.core hp rfl
    refine ⟨decActual { s with pending := s.pending.erase p } p, by simp [step, hpc, hz, hp], ?_, by rw [h1]; exact hpc⟩
    have hl := List.length_erase_of_mem hp
    have hpos : 0 < s.pending.length := List.length_pos_of_mem hp
    have : (decActual { s with pending := s.pending.erase p } p).pending = s.pending.erase p := by
      unfold decActual; split <;> rfl
    rw [this, hl]; omega
  · have := hinv.core.tot
    rw [hi, hp] at this
    exact (Dist.allZero_iff_total _).2 (by simpa using this)

/-! ### the argument contract -/

/-- well-formedness of the registered priorities -/
structure WF (s : St) : Prop where
  sorted : s.prios.Pairwise (· > ·)
  regs : ∀ p, p ∈ s.prios ↔ (alGet s.inputs p).isSome
  inputsNd : (alKeys s.inputs).Nodup
  /-- every recorded divider call: strictly decreasing priorities, dividend ≤ H -/
  logOK : ∀ e ∈ s.log, e.1.Pairwise (· > ·) ∧ e.2 ≤ s.cfg.H
  /-- inside `prioritize` only registered priorities are visited -/
  restSub : ∀ ph rest, s.pc = .prio ph rest → rest.Sublist s.prios

theorem filter_strict (l : List Nat) (f : Nat → Bool) (h : l.Pairwise (· > ·)) : (l.filter f).Pairwise (· > ·) :=
  List.Pairwise.sublist (List.filter_sublist) h

theorem wf_same {s u : St} (h : WF s) (hp : u.prios = s.prios) (hi : u.inputs = s.inputs) (hl : u.log = s.log)
    (hc : u.cfg = s.cfg) (hpc : ∀ ph rest, u.pc = .prio ph rest → rest.Sublist s.prios) : WF u :=
  ⟨by rw [hp]; exact h.sorted, by rw [hp, hi]; exact h.regs, by rw [hi]; exact h.inputsNd,
   by rw [hl, hc]; exact h.logOK, by rw [hp]; exact hpc⟩

theorem wf_decActual {t : St} (p : Nat) (h : WF t) : WF (decActual t p) := by
  unfold decActual
  split
  · exact wf_same h rfl rfl rfl rfl (fun ph rest hpc => by simp at hpc)
  · exact wf_same h rfl rfl rfl rfl h.restSub

theorem calc_divArgs (f : List Nat → Nat → Dist → Dist) (prios : List Nat) (a st t : Dist) (v : Nat) :
    ∀ e ∈ (calcTacticWith f prios a st t v).divArgs, e.1.Sublist prios ∧ e.2 = v := by
  intro e he
  unfold calcTacticWith at he
  split at he
  · simp at he
  · split at he
    · simp at he
    · simp only [List.mem_singleton] at he
      subst he
      exact ⟨List.filter_sublist, rfl⟩

theorem recalc_divArgs (div : DivFn) (i H : Nat) (prios : List Nat) (a t : Dist) :
    ∀ e ∈ (recalcTacticWith div i H prios a t).divArgs, e.1.Sublist prios ∧ (e.2 = H ∨ e.2 = t.total) := by
  intro e he
  unfold recalcTacticWith at he
  simp only at he
  split at he
  · simp only [List.mem_singleton] at he; subst he; exact ⟨List.filter_sublist, Or.inl rfl⟩
  · split at he <;>
    · simp only [List.mem_cons, List.not_mem_nil, or_false] at he
      rcases he with rfl | rfl
      · exact ⟨List.filter_sublist, Or.inl rfl⟩
      · exact ⟨List.filter_sublist, Or.inr rfl⟩

theorem wf_stepCalc (div : DivFn) (s : St) (h : WF s) : WF (stepCalc div s) := by
  have hlog : ∀ e ∈ (s.log ++ (calcTacticWith (div s.calls) s.prios s.actual s.strategic s.tactic
      (s.cfg.H - s.actual.total)).divArgs), e.1.Pairwise (· > ·) ∧ e.2 ≤ s.cfg.H := by
    intro e he
    simp only [List.mem_append] at he
    rcases he with he | he
    · exact h.logOK e he
    · obtain ⟨h1, h2⟩ := calc_divArgs _ _ _ _ _ _ e he
      exact ⟨List.Pairwise.sublist h1 h.sorted, by rw [h2]; omega⟩
  simp only [stepCalc]
  split
  · split
    · exact wf_same h rfl rfl rfl rfl (fun ph rest hpc => by simp at hpc)
    · exact wf_same h rfl rfl rfl rfl (fun ph rest hpc => by simp at hpc)
  · split
    · exact ⟨h.sorted, h.regs, h.inputsNd, hlog, fun ph rest hpc => by simp at hpc; rw [← hpc.2]; exact List.Sublist.refl _⟩
    · exact ⟨h.sorted, h.regs, h.inputsNd, hlog, fun ph rest hpc => by simp at hpc⟩
    · exact ⟨h.sorted, h.regs, h.inputsNd, hlog, fun ph rest hpc => by simp at hpc⟩

theorem wf_stepRecalc (div : DivFn) (s : St) (h : WF s) (hcap : s.tactic.total ≤ s.cfg.H) : WF (stepRecalc div s) := by
  have hlog : ∀ e ∈ (s.log ++ (recalcTacticWith div s.calls s.cfg.H s.prios s.actual s.tactic).divArgs),
      e.1.Pairwise (· > ·) ∧ e.2 ≤ s.cfg.H := by
    intro e he
    simp only [List.mem_append] at he
    rcases he with he | he
    · exact h.logOK e he
    · obtain ⟨h1, h2⟩ := recalc_divArgs _ _ _ _ _ _ e he
      refine ⟨List.Pairwise.sublist h1 h.sorted, ?_⟩
      rcases h2 with h2 | h2 <;> rw [h2]
      · exact Nat.le_refl _
      · exact hcap
  simp only [stepRecalc]
  split
  · exact ⟨h.sorted, h.regs, h.inputsNd, hlog, fun ph rest hpc => by simp at hpc; rw [← hpc.2]; exact List.Sublist.refl _⟩
  · exact ⟨h.sorted, h.regs, h.inputsNd, hlog, fun ph rest hpc => by simp at hpc; rw [hpc.2]; exact List.nil_sublist _⟩
  · exact ⟨h.sorted, h.regs, h.inputsNd, hlog, fun ph rest hpc => by simp at hpc⟩

theorem wf_stepTop (div : DivFn) (s s' : St) (c : TopChoice) (h : WF s) (hs : stepTop div s c = some s') : WF s' := by
  cases c with
  | stop =>
    simp only [stepTop] at hs
    split at hs
    · cases hs; exact wf_same h rfl rfl rfl rfl (fun ph rest hpc => by simp at hpc)
    · cases hs
  | none =>
    simp only [stepTop, Option.some.injEq] at hs
    subst hs
    exact wf_same h rfl rfl rfl rfl (fun ph rest hpc => by simp [afterTop] at hpc)
  | feedback p =>
    simp only [stepTop] at hs
    split at hs
    · split at hs
      · cases hs; exact wf_decActual p (wf_same h rfl rfl rfl rfl h.restSub)
      · cases hs
        have := wf_decActual p (wf_same (u := { s with pending := s.pending.erase p }) h rfl rfl rfl rfl h.restSub)
        exact wf_same this rfl rfl rfl rfl (fun ph rest hpc => by simp [afterTop] at hpc)
    · cases hs
  | add p c b =>
    simp only [stepTop, Option.some.injEq] at hs
    subst hs
    have hnd := nodup_of_strict _ h.sorted
    by_cases hex : (alGet s.inputs p).isSome = true
    · -- the priority is already registered: only its channel is replaced
      have hmem : p ∈ s.prios := (h.regs p).2 hex
      have hsorted : (sortDesc s.prios).Pairwise (· > ·) := sortDesc_strict _ hnd
      refine ⟨by simpa [afterTop, restrategize, hex] using hsorted, ?_, ?_, ?_, fun ph rest hpc => by simp [afterTop] at hpc⟩
      · intro q
        simp only [afterTop, restrategize, hex, if_true, mem_sortDesc, alGet_alSet']
        by_cases hq : p = q
        · subst hq; simp [hmem]
        · simp only [hq, if_false]; exact h.regs q
      · simpa [afterTop, restrategize] using nodup_alSet s.inputs p ⟨c, false⟩ h.inputsNd
      · intro e he
        simp only [afterTop, restrategize, hex, if_true, List.mem_append, List.mem_singleton] at he
        rcases he with he | rfl
        · exact h.logOK e he
        · exact ⟨hsorted, Nat.le_refl _⟩
    · have hnmem : p ∉ s.prios := fun hm => hex ((h.regs p).1 hm)
      have hnd' : (s.prios ++ [p]).Nodup := by
        rw [List.nodup_append]
        exact ⟨hnd, by simp, fun a ha b hb hab => by simp at hb; subst hb; subst hab; exact hnmem ha⟩
      have hsorted : (sortDesc (s.prios ++ [p])).Pairwise (· > ·) := sortDesc_strict _ hnd'
      have hex' : (alGet s.inputs p).isSome = false := by simpa using hex
      refine ⟨by simpa [afterTop, restrategize, hex'] using hsorted, ?_, ?_, ?_, fun ph rest hpc => by simp [afterTop] at hpc⟩
      · intro q
        simp only [afterTop, restrategize, hex', Bool.false_eq_true, if_false, mem_sortDesc, alGet_alSet',
          List.mem_append, List.mem_singleton]
        by_cases hq : p = q
        · subst hq; simp
        · have : ¬ q = p := fun e => hq e.symm
          simp only [hq, if_false, this, or_false]; exact h.regs q
      · simpa [afterTop, restrategize] using nodup_alSet s.inputs p ⟨c, false⟩ h.inputsNd
      · intro e he
        simp only [afterTop, restrategize, hex', Bool.false_eq_true, if_false, List.mem_append, List.mem_singleton] at he
        rcases he with he | rfl
        · exact h.logOK e he
        · exact ⟨hsorted, Nat.le_refl _⟩
  | remove p =>
    simp only [stepTop, Option.some.injEq] at hs
    subst hs
    have hsorted : (s.prios.filter (· ≠ p)).Pairwise (· > ·) := filter_strict _ _ h.sorted
    refine ⟨by simpa [afterTop, restrategize] using hsorted, ?_, ?_, ?_, fun ph rest hpc => by simp [afterTop] at hpc⟩
    · intro q
      simp only [afterTop, restrategize, List.mem_filter, ne_eq, decide_not, Bool.not_eq_true', decide_eq_false_iff_not]
      rw [alGet_alErase _ _ _ h.inputsNd]
      by_cases hq : p = q
      · subst hq; simp
      · have : ¬ q = p := fun e => hq e.symm
        simp only [hq, if_false, this, not_false_eq_true, and_true]; exact h.regs q
    · simpa [afterTop, restrategize] using nodup_alErase s.inputs p h.inputsNd
    · intro e he
      simp only [afterTop, restrategize, List.mem_append, List.mem_singleton] at he
      rcases he with he | rfl
      · exact h.logOK e he
      · exact ⟨hsorted, Nat.le_refl _⟩

/-- **one step keeps the well-formedness / argument-contract invariant** -/
theorem wf_step (div : DivFn) (s s' : St) (a : Act) (hinv : Inv s) (h : WF s) (hs : step div s a = some s') : WF s' := by
  have tail : ∀ ph p rest, s.pc = .prio ph (p :: rest) → rest.Sublist s.prios := by
    intro ph p rest hpc
    exact (List.sublist_cons_self p rest).trans (h.restSub ph (p :: rest) hpc)
  cases a with
  | arrive c x => obtain ⟨ch, _, _, rfl⟩ := step_arrive hs; exact wf_same h rfl rfl rfl rfl h.restSub
  | close c => obtain ⟨ch, _, rfl⟩ := step_close hs; exact wf_same h rfl rfl rfl rfl h.restSub
  | release p => obtain ⟨_, rfl⟩ := step_release hs; exact wf_same h rfl rfl rfl rfl h.restSub
  | stop => obtain ⟨_, rfl⟩ := step_stop hs; exact wf_same h rfl rfl rfl rfl h.restSub
  | graceful => obtain ⟨_, rfl⟩ := step_graceful hs; exact wf_same h rfl rfl rfl rfl h.restSub
  | top c => exact wf_stepTop div s s' c h (step_top hs).2.1
  | «calc» => obtain ⟨_, rfl⟩ := step_calc hs; exact wf_stepCalc div s h
  | recalc =>
    obtain ⟨hpc, rfl⟩ := step_recalc hs
    have := hinv.cap; rw [hpc] at this
    exact wf_stepRecalc div s h (by simp only [capOk] at this; omega)
  | endRound =>
    obtain ⟨ph, _, _, hc⟩ := step_endRound hs
    rcases hc with ⟨_, _, _, rfl⟩ | ⟨_, rfl⟩ <;> exact wf_same h rfl rfl rfl rfl (fun ph rest hpc => by simp at hpc)
  | limitedStop =>
    obtain ⟨k, _, rfl⟩ := step_limitedStop hs
    exact wf_same h rfl rfl rfl rfl (fun ph rest hpc => by
      rcases nextRound_pc s with e | e <;> simp [e] at hpc)
  | exit => obtain ⟨e, _, _, rfl⟩ := step_exit hs; exact wf_same h rfl rfl rfl rfl (fun ph rest hpc => by simp at hpc)
  | consume p =>
    obtain ⟨_, hc⟩ := step_consume hs
    have base : WF (decActual { s with pending := s.pending.erase p } p) :=
      wf_decActual p (wf_same (u := { s with pending := s.pending.erase p }) h rfl rfl rfl rfl h.restSub)
    rcases hc with ⟨hpc, rfl⟩ | ⟨k, hpc, _, rfl⟩ | ⟨e, hpc, _, rfl⟩
    · split
      · exact base
      · unfold afterWaitFb
        split
        · refine ⟨base.sorted, base.regs, base.inputsNd, base.logOK, fun ph rest hp => ?_⟩
          simp at hp; rw [← hp.2]; exact List.Sublist.refl _
        · exact wf_same base rfl rfl rfl rfl (fun ph rest hp => by simp at hp)
    · split
      · exact base
      · exact wf_same base rfl rfl rfl rfl (fun ph rest hp => by simp at hp)
    · exact base
  | stopSeen =>
    obtain ⟨_, _, hc⟩ := step_stopSeen hs
    rcases hc with ⟨_, rfl⟩ | ⟨ph, p, rest, hpc, rfl⟩ | ⟨k, _, rfl⟩ | ⟨e, _, rfl⟩
    · unfold afterWaitFb
      split
      · refine ⟨h.sorted, h.regs, h.inputsNd, h.logOK, fun ph rest hp => ?_⟩
        simp at hp; rw [← hp.2]; exact List.Sublist.refl _
      · exact wf_same h rfl rfl rfl rfl (fun ph rest hp => by simp at hp)
    · exact wf_same h rfl rfl rfl rfl (fun ph' rest' hp => by simp at hp; rw [← hp.2]; exact tail ph p rest hpc)
    · exact wf_same h rfl rfl rfl rfl (fun ph rest hpc => by rcases nextRound_pc s with e | e <;> simp [e] at hpc)
    · exact wf_same h rfl rfl rfl rfl (fun ph rest hpc => by simp at hpc)
  | skip =>
    obtain ⟨ph, p, rest, hpc, hp⟩ := step_poll_pc (Or.inr (Or.inr (Or.inr (Or.inr rfl)))) hs
    obtain ⟨rfl, _⟩ := stepPoll_skip hp
    exact wf_same h rfl rfl rfl rfl (fun ph' rest' hp' => by simp at hp'; rw [← hp'.2]; exact tail ph p rest hpc)
  | pollEmpty =>
    obtain ⟨ph, p, rest, hpc, hp⟩ := step_poll_pc (Or.inr (Or.inr (Or.inr (Or.inl rfl)))) hs
    have := stepPoll_empty hp; subst this
    exact wf_same h rfl rfl rfl rfl (fun ph' rest' hp' => by simp at hp'; rw [← hp'.2]; exact tail ph p rest hpc)
  | pollClosed =>
    obtain ⟨ph, p, rest, hpc, hp⟩ := step_poll_pc (Or.inr (Or.inr (Or.inl rfl))) hs
    obtain ⟨inp, ch, hin, _, _, _, rfl⟩ := stepPoll_closed hp
    refine ⟨h.sorted, ?_, ?_, h.logOK, fun ph' rest' hp' => by simp at hp'; rw [← hp'.2]; exact tail ph p rest hpc⟩
    · intro q
      simp only [alGet_alSet']
      by_cases hq : p = q
      · subst hq; simp [(h.regs p).2 (by simp [hin])]
      · simp only [hq, if_false]; exact h.regs q
    · exact nodup_alSet s.inputs p _ h.inputsNd
  | pollItem =>
    obtain ⟨ph, p, rest, hpc, hp⟩ := step_poll_pc (Or.inl rfl) hs
    obtain ⟨inp, ch, x, q, _, _, _, _, _, rfl⟩ := stepPoll_item hp
    exact wf_same h rfl rfl rfl rfl (fun ph' rest' hp' => by rw [hpc] at hp'; exact h.restSub ph' rest' (by rw [hpc]; exact hp'))
  | pollDrop =>
    obtain ⟨ph, p, rest, hpc, hp⟩ := step_poll_pc (Or.inr (Or.inl rfl)) hs
    obtain ⟨inp, ch, x, q, _, _, _, _, _, rfl⟩ := stepPoll_drop hp
    exact wf_same h rfl rfl rfl rfl (fun ph' rest' hp' => by rw [hpc] at hp'; exact h.restSub ph' rest' (by rw [hpc]; exact hp'))

theorem wf_run (div : DivFn) (acts : List Act) (s s' : St) (hinv : Inv s) (h : WF s) (hr : run div s acts = some s') :
    WF s' ∧ Inv s' ∧ s'.cfg = s.cfg := by
  induction acts generalizing s with
  | nil => simp [run] at hr; subst hr; exact ⟨h, hinv, rfl⟩
  | cons a as ih =>
    simp only [run] at hr
    split at hr
    · rename_i s1 hs1
      have h1 := C01.step_inv div s s1 a hinv hs1
      obtain ⟨r1, r2, r3⟩ := ih s1 h1.1 (wf_step div s s1 a hinv h hs1) hr
      exact ⟨r1, r2, by rw [r3, h1.2]⟩
    · cases hr

theorem alKeys_mkInputs (keys : List (Nat × Bool)) : alKeys (mkInputs keys).1 = keys.map (·.1) := by
  simp [mkInputs, alKeys, List.map_map, Function.comp_def]

theorem wf_initV2 (div : DivFn) (keys : List (Nat × Bool)) (H : Nat) (s : St) (hnd : (keys.map (·.1)).Nodup)
    (h : initV2 div keys H = .ok s) : WF s := by
  unfold initV2 at h
  split at h
  · cases h
  · rename_i ps strategic hprep
    cases h
    have hps : ps = sortDesc (keys.map (·.1)) := by
      unfold prepareV2 at hprep
      simp only at hprep
      split at hprep
      · cases hprep
      · split at hprep <;> cases hprep; rfl
    subst hps
    refine ⟨sortDesc_strict _ hnd, ?_, by rw [alKeys_mkInputs]; exact hnd, ?_, fun ph rest hpc => by simp at hpc⟩
    · intro p
      rw [mem_sortDesc, alGet_isSome_iff, alKeys_mkInputs]
    · intro e he
      simp only [List.mem_singleton] at he
      subst he
      exact ⟨sortDesc_strict _ hnd, Nat.le_refl _⟩

theorem wf_initV1 (div : DivFn) (keys : List (Nat × Bool)) (H : Nat) (hnd : (keys.map (·.1)).Nodup) :
    WF (initV1 div keys H) := by
  refine ⟨sortDesc_strict _ hnd, ?_, by show (alKeys (mkInputs keys).1).Nodup; rw [alKeys_mkInputs]; exact hnd, ?_,
    fun ph rest hpc => by simp [initV1] at hpc⟩
  · intro p
    show p ∈ sortDesc (keys.map (·.1)) ↔ (alGet (mkInputs keys).1 p).isSome
    rw [mem_sortDesc, alGet_isSome_iff, alKeys_mkInputs]
  · intro e he
    simp only [initV1, List.mem_singleton] at he
    subst he
    exact ⟨sortDesc_strict _ hnd, Nat.le_refl _⟩

/-- **C15 (argument contract, v2).** After any run of a v2 discipline every divider call that
    was ever made received a strictly decreasing (sorted high to low, distinct) list of
    priorities and a dividend not exceeding HandlersQuantity. -/
theorem c15_args_v2 (div : DivFn) (keys : List (Nat × Bool)) (H : Nat) (hnd : (keys.map (·.1)).Nodup)
    (s0 s : St) (acts : List Act) (h0 : initV2 div keys H = .ok s0) (hr : run div s0 acts = some s) :
    ∀ e ∈ s.log, e.1.Pairwise (· > ·) ∧ e.2 ≤ H := by
  obtain ⟨hf, hH⟩ := C01.initV2_fresh div keys H s0 h0
  obtain ⟨hw, _, hc⟩ := wf_run div acts s0 s (C01.fresh_inv hf) (wf_initV2 div keys H s0 hnd h0) hr
  have := hw.logOK; rw [hc, hH] at this; exact this

/-- **C15 (argument contract, v1)** — across AddInput / RemoveInput / Stop. -/
theorem c15_args_v1 (div : DivFn) (keys : List (Nat × Bool)) (H : Nat) (hnd : (keys.map (·.1)).Nodup)
    (s : St) (acts : List Act) (hr : run div (initV1 div keys H) acts = some s) :
    ∀ e ∈ s.log, e.1.Pairwise (· > ·) ∧ e.2 ≤ H := by
  obtain ⟨hf, hH⟩ := C01.initV1_fresh div keys H
  obtain ⟨hw, _, hc⟩ := wf_run div acts _ s (C01.fresh_inv hf) (wf_initV1 div keys H hnd) hr
  have := hw.logOK; rw [hc, hH] at this; exact this

/-- every call's priorities are among the priorities configured at that moment: the lists
    are sub-lists (filters) of the registered priority list -/
theorem c15_args_sublist_calc (f : List Nat → Nat → Dist → Dist) (prios : List Nat) (a st t : Dist) (v : Nat) :
    ∀ e ∈ (calcTacticWith f prios a st t v).divArgs, e.1.Sublist prios := fun e he => (calc_divArgs f prios a st t v e he).1

theorem c15_args_sublist_recalc (div : DivFn) (i H : Nat) (prios : List Nat) (a t : Dist) :
    ∀ e ∈ (recalcTacticWith div i H prios a t).divArgs, e.1.Sublist prios := fun e he => (recalc_divArgs div i H prios a t e he).1

/-! ### v2 New -/

/-- **C15 (New returns ErrDividerBad exactly for a fault at creation).** -/
theorem c15_new_divider_bad (div : List Nat → Nat → Dist → Dist) (keys : List Nat) (H : Nat) :
    prepareV2 div keys H = .error .dividerBad ↔
      ((div (sortDesc keys) H []).total ≠ 0 ∧ (div (sortDesc keys) H []).total ≠ H) := by
  have key := safeDivide_err_iff div (sortDesc keys) H []
  simp only [Dist.total_nil, Nat.not_lt_zero, false_or, Nat.sub_zero] at key
  rw [← key]
  unfold prepareV2
  simp only
  constructor
  · intro h
    split at h
    · rename_i t e heq
      cases h; simp [heq]
    · split at h <;> cases h
  · intro h
    split
    · rename_i t e heq
      rw [heq] at h; simp only [Option.some.injEq] at h; subst h; rfl
    · rename_i t heq
      rw [heq] at h; cases h

/-- **C15 (New rejects exactly the configurations in which some priority's share is zero)**
    — given that the division itself passed the sum check. -/
theorem c15_new_too_small (div : List Nat → Nat → Dist → Dist) (keys : List Nat) (H : Nat) :
    prepareV2 div keys H = .error .tooSmall ↔
      ((safeDivide div (sortDesc keys) H []).2 = none ∧ ∃ p ∈ sortDesc keys, (div (sortDesc keys) H []).get p = 0) := by
  unfold prepareV2
  simp only
  have hfst := safeDivide_fst div (sortDesc keys) H []
  constructor
  · intro h
    split at h
    · rename_i t e heq
      have := safeDivide_err_only div (sortDesc keys) H [] e (by rw [heq])
      subst this; cases h
    · rename_i t heq
      split at h
      · cases h
      · rename_i hnf
        refine ⟨by rw [heq], ?_⟩
        have ht : t = div (sortDesc keys) H [] := by rw [← hfst, heq]
        subst ht
        have hf : filledFor (sortDesc keys) (div (sortDesc keys) H []) = false := by simpa using hnf
        simp only [filledFor, List.all_eq_false] at hf
        obtain ⟨p, hp, hz⟩ := hf
        exact ⟨p, hp, by simpa using hz⟩
  · rintro ⟨hok, p, hp, hz⟩
    split
    · rename_i t e heq; rw [heq] at hok; cases hok
    · rename_i t heq
      have ht : t = div (sortDesc keys) H [] := by rw [← hfst, heq]
      subst ht
      have : filledFor (sortDesc keys) (div (sortDesc keys) H []) = false := by
        simp only [filledFor, List.all_eq_false, bne_iff_ne, ne_eq, Decidable.not_not]
        exact ⟨p, hp, hz⟩
      simp [this]

/-- Defect D2 kept as a decided fact about the UNREPAIRED `prepare`: a divider that leaves
    the key of a listed priority absent slipped through. -/
theorem c15_unfixed_counterexample :
    (prepareV2Unfixed (fun ps d m => match ps with | p :: _ => m.add p d | [] => m) [2, 1] 3).isOk = true ∧
    prepareV2 (fun ps d m => match ps with | p :: _ => m.add p d | [] => m) [2, 1] 3 = .error .tooSmall :=
  ⟨rfl, rfl⟩

/-! Non-vacuity: a faulty second round division stops the deliveries. -/
example :
    (match initV2 (fun i ps d m => if i = 1 then (fair ps d m).add 2 5 else fair ps d m) [(2, true), (1, true)] 2 with
     | .ok s0 =>
       (run (fun i ps d m => if i = 1 then (fair ps d m).add 2 5 else fair ps d m) s0
          [.arrive 2 7, .calc, .pollItem, .skip, .pollEmpty, .recalc]).map (fun s => s.pc)
     | .error _ => none) = some (.drain (some .dividerBad)) := by decide

end Cqos.C15
