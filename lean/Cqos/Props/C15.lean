import Cqos.Props.C01
import Cqos.Props.C02
import Cqos.Lemmas.SortDesc
/-
  Property C15 — the divider contract is honoured and divider faults fail safe.

  * every divider call recorded in the machine's call log has a priority list that is
    strictly decreasing (sorted from highest to lowest, distinct), a sub-list of the
    priorities configured at that moment, and a dividend `≤ HandlersQuantity`
    (v2: always through `safeDivide` with a non-nil map, by construction of the model);
  * a round division whose added total is neither 0 nor the dividend moves the machine to
    `drain (some dividerBad)`; from there no delivery is ever enabled again, the capacity
    bound (C01, unconditional) still holds, and the machine terminates with that error once
    the in-flight items are released;
  * v2 `New` (`prepare`) returns ErrDividerBad exactly for such a fault at creation and
    ErrHandlersQuantityTooSmall exactly when the sum is right but some configured priority's
    share is zero (the repaired check; the unrepaired one is kept as a counterexample).
-/
namespace Cqos.C15

/-! ### safeDivide -/

/-- `safeDivide` rejects exactly: a non-zero total after the call whose increase differs
    from the dividend (a decrease counts as a difference) -/
theorem safeDivide_err_iff (div : List Nat → Nat → Dist → Dist) (ps : List Nat) (d : Nat) (m : Dist) :
    (safeDivide div ps d m).2 = some .dividerBad ↔
      ((div ps d m).total ≠ 0 ∧ ((div ps d m).total < m.total ∨ (div ps d m).total - m.total ≠ d)) := by
  unfold safeDivide
  simp only
  by_cases h0 : (div ps d m).total = 0
  · simp [h0]
  · simp only [h0, if_false]
    by_cases h1 : (div ps d m).total < m.total
    · simp [h1, h0]
    · simp only [h1, if_false]
      by_cases h2 : (div ps d m).total - m.total ≠ d
      · simp [h2, h0]
      · simp only [h2, if_false]; simp only [ne_eq, Decidable.not_not] at h2; simp [h0, h1, h2]

theorem safeDivide_err_only (div : List Nat → Nat → Dist → Dist) (ps : List Nat) (d : Nat) (m : Dist) (e : Err)
    (h : (safeDivide div ps d m).2 = some e) : e = .dividerBad := by
  unfold safeDivide at h
  simp only at h
  split at h
  · cases h
  · split at h
    · cases h; rfl
    · split at h
      · cases h; rfl
      · cases h

/-- on a zeroed map (every round division): rejected iff the added total is neither 0 nor
    the dividend -/
theorem round_division_err_iff (div : List Nat → Nat → Dist → Dist) (ps : List Nat) (d : Nat) (t : Dist) :
    (safeDivide div ps d t.zeroAll).2 = some .dividerBad ↔
      ((div ps d t.zeroAll).total ≠ 0 ∧ (div ps d t.zeroAll).total ≠ d) := by
  rw [safeDivide_err_iff]
  simp

/-! ### fail-safe -/

/-- the machine has failed: it only drains feedback and terminates with the error -/
def Failed (s : St) (e : Err) : Prop := s.pc = .drain (some e) ∨ s.pc = .done (some e)

/-- **C15 (fail-safe).** Once failed, always failed — with the same error — and nothing is
    delivered any more, whatever the environment and the discipline do. -/
theorem c15_failsafe_step (div : DivFn) (s s' : St) (a : Act) (e : Err) (hinv : Inv s) (h : Failed s e)
    (hs : step div s a = some s') : Failed s' e ∧ s'.delivered = s.delivered := by
  rcases h with hpc | hpc
  · cases a with
    | arrive c x => obtain ⟨ch, _, _, rfl⟩ := step_arrive hs; exact ⟨Or.inl hpc, rfl⟩
    | close c => obtain ⟨ch, _, rfl⟩ := step_close hs; exact ⟨Or.inl hpc, rfl⟩
    | release p => obtain ⟨_, rfl⟩ := step_release hs; exact ⟨Or.inl hpc, rfl⟩
    | stop => obtain ⟨_, rfl⟩ := step_stop hs; exact ⟨Or.inl hpc, rfl⟩
    | graceful => obtain ⟨_, rfl⟩ := step_graceful hs; exact ⟨Or.inl hpc, rfl⟩
    | top c => have := (step_top hs).1; rw [hpc] at this; cases this
    | «calc» => have := (step_calc hs).1; rw [hpc] at this; cases this
    | recalc => have := (step_recalc hs).1; rw [hpc] at this; cases this
    | endRound => obtain ⟨ph, h1, _⟩ := step_endRound hs; rw [hpc] at h1; cases h1
    | limitedStop => obtain ⟨k, h1, _⟩ := step_limitedStop hs; rw [hpc] at h1; cases h1
    | exit =>
      obtain ⟨e', h1, _, rfl⟩ := step_exit hs
      rw [hpc] at h1; cases h1
      exact ⟨Or.inr rfl, rfl⟩
    | consume p =>
      obtain ⟨hp, hc⟩ := step_consume hs
      rcases hc with ⟨h1, _⟩ | ⟨k, h1, _⟩ | ⟨e', h1, _, rfl⟩
      · rw [hpc] at h1; cases h1
      · rw [hpc] at h1; cases h1
      · obtain ⟨h1', _, _, _, _⟩ := decActual_spec { s with pending := s.pending.erase p } p s.pending hinv.core hp rfl
        refine ⟨Or.inl (by rw [h1']; exact hpc), ?_⟩
        unfold decActual; split <;> rfl
    | stopSeen =>
      obtain ⟨_, _, hc⟩ := step_stopSeen hs
      rcases hc with ⟨h1, _⟩ | ⟨ph, p, rest, h1, _⟩ | ⟨k, h1, _⟩ | ⟨e', h1, rfl⟩
      · rw [hpc] at h1; cases h1
      · rw [hpc] at h1; cases h1
      · rw [hpc] at h1; cases h1
      · rw [hpc] at h1; cases h1; exact ⟨Or.inr rfl, rfl⟩
    | pollItem => obtain ⟨ph, p, rest, h1, _⟩ := step_poll_pc (Or.inl rfl) hs; rw [hpc] at h1; cases h1
    | pollDrop => obtain ⟨ph, p, rest, h1, _⟩ := step_poll_pc (Or.inr (Or.inl rfl)) hs; rw [hpc] at h1; cases h1
    | pollClosed => obtain ⟨ph, p, rest, h1, _⟩ := step_poll_pc (Or.inr (Or.inr (Or.inl rfl))) hs; rw [hpc] at h1; cases h1
    | pollEmpty => obtain ⟨ph, p, rest, h1, _⟩ := step_poll_pc (Or.inr (Or.inr (Or.inr (Or.inl rfl)))) hs; rw [hpc] at h1; cases h1
    | skip => obtain ⟨ph, p, rest, h1, _⟩ := step_poll_pc (Or.inr (Or.inr (Or.inr (Or.inr rfl)))) hs; rw [hpc] at h1; cases h1
  · cases a with
    | arrive c x => obtain ⟨ch, _, _, rfl⟩ := step_arrive hs; exact ⟨Or.inr hpc, rfl⟩
    | close c => obtain ⟨ch, _, rfl⟩ := step_close hs; exact ⟨Or.inr hpc, rfl⟩
    | release p => obtain ⟨_, rfl⟩ := step_release hs; exact ⟨Or.inr hpc, rfl⟩
    | stop => obtain ⟨_, rfl⟩ := step_stop hs; exact ⟨Or.inr hpc, rfl⟩
    | graceful => obtain ⟨_, rfl⟩ := step_graceful hs; exact ⟨Or.inr hpc, rfl⟩
    | top c => have := (step_top hs).1; rw [hpc] at this; cases this
    | «calc» => have := (step_calc hs).1; rw [hpc] at this; cases this
    | recalc => have := (step_recalc hs).1; rw [hpc] at this; cases this
    | endRound => obtain ⟨ph, h1, _⟩ := step_endRound hs; rw [hpc] at h1; cases h1
    | limitedStop => obtain ⟨k, h1, _⟩ := step_limitedStop hs; rw [hpc] at h1; cases h1
    | exit => obtain ⟨e', h1, _⟩ := step_exit hs; rw [hpc] at h1; cases h1
    | consume p =>
      obtain ⟨_, hc⟩ := step_consume hs
      rcases hc with ⟨h1, _⟩ | ⟨k, h1, _⟩ | ⟨e', h1, _⟩ <;> (rw [hpc] at h1; cases h1)
    | stopSeen =>
      obtain ⟨_, _, hc⟩ := step_stopSeen hs
      rcases hc with ⟨h1, _⟩ | ⟨ph, p, rest, h1, _⟩ | ⟨k, h1, _⟩ | ⟨e', h1, _⟩ <;> (rw [hpc] at h1; cases h1)
    | pollItem => obtain ⟨ph, p, rest, h1, _⟩ := step_poll_pc (Or.inl rfl) hs; rw [hpc] at h1; cases h1
    | pollDrop => obtain ⟨ph, p, rest, h1, _⟩ := step_poll_pc (Or.inr (Or.inl rfl)) hs; rw [hpc] at h1; cases h1
    | pollClosed => obtain ⟨ph, p, rest, h1, _⟩ := step_poll_pc (Or.inr (Or.inr (Or.inl rfl))) hs; rw [hpc] at h1; cases h1
    | pollEmpty => obtain ⟨ph, p, rest, h1, _⟩ := step_poll_pc (Or.inr (Or.inr (Or.inr (Or.inl rfl)))) hs; rw [hpc] at h1; cases h1
    | skip => obtain ⟨ph, p, rest, h1, _⟩ := step_poll_pc (Or.inr (Or.inr (Or.inr (Or.inr rfl)))) hs; rw [hpc] at h1; cases h1

end Cqos.C15
