import Cqos.Tactic
/-
  The priority discipline (v2 `priority.Discipline`, v1 `priority.Discipline`) as ONE
  micro-step machine.  The scheduling goroutine owns all mutable state; everything else
  (producers, handlers, Stop/GracefulStop/AddInput/RemoveInput callers, the choice a
  `select` makes among ready cases, the instants at which things happen) is the
  ENVIRONMENT and appears as the sequence of actions fed to `step`.  A property "for every
  schedule" is a theorem "for every action list".

  See DESIGN.md appendix A for the correspondence between actions and Go statements.
-/
namespace Cqos

structure Chan where
  queue : List Nat        -- buffered elements followed by the values of parked senders
  closed : Bool
  buffered : Bool         -- cap(ch) != 0
  deriving Repr, DecidableEq

structure Input where
  chan : Nat              -- identity of the registered channel
  drained : Bool
  deriving Repr, DecidableEq

inductive Pc
  | top                                   -- v1 only: the `select` at the top of `loop`
  | calc                                  -- about to call `calcTactic` (inside `waitCalcTactic`)
  | waitFb                                -- `getOneFeedback`
  | prio (phase : Nat) (rest : List Nat)  -- inside `prioritize` number `phase`
  | limited (k : Nat)                     -- `getLimitedFeedback`, k receives left
  | drain (e : Option Err)                -- `waitZeroActual` (deferred by `loop`)
  | done (e : Option Err)                 -- `main` has returned: output/err closed
  | fault                                 -- an unsigned subtraction wrapped (proved unreachable)
  deriving Repr, DecidableEq

structure Cfg where
  v1 : Bool
  H : Nat
  fbLimit : Nat
  deriving Repr, DecidableEq

structure St where
  cfg : Cfg
  prios : List Nat
  inputs : List (Nat × Input)
  chans : List (Nat × Chan)
  actual : Dist
  strategic : Dist
  tactic : Dist
  pending : List Nat                     -- releases issued and not yet consumed
  calls : Nat                            -- divider calls made so far
  processed : Nat                        -- items sent in the current `base()` call
  stopped : Bool                         -- v1: breaker broken or context cancelled
  graceful : Bool                        -- v1: GracefulStop requested
  pc : Pc
  -- history (ghost) components
  delivered : List (Nat × Nat × Nat)     -- (priority, channel, item), in output order
  dropped : List (Nat × Nat × Nat)       -- v1: received but the send was aborted by stop
  taken : List (Nat × Nat)               -- (channel, item) in order of receipt from inputs
  arrived : List (Nat × Nat)             -- (channel, item) in order of arrival
  inflight : Dist                        -- delivered minus release ISSUED, per priority
  log : List (List Nat × Nat)            -- divider calls: (priorities, dividend)
  deriving Repr

/-! ### association-list helpers -/

def alGet {α} : List (Nat × α) → Nat → Option α
  | [], _ => none
  | (k', v) :: r, k => if k' = k then some v else alGet r k

def alSet {α} : List (Nat × α) → Nat → α → List (Nat × α)
  | [], k, v => [(k, v)]
  | (k', v') :: r, k, v => if k' = k then (k', v) :: r else (k', v') :: alSet r k v

def alErase {α} : List (Nat × α) → Nat → List (Nat × α)
  | [], _ => []
  | (k', v') :: r, k => if k' = k then r else (k', v') :: alErase r k

inductive TopChoice
  | stop | add (p c : Nat) (buffered : Bool) | remove (p : Nat) | feedback (p : Nat) | none
  deriving Repr, DecidableEq

inductive Act
  -- environment
  | arrive (c x : Nat)      -- a producer's `ch <- x` completes or parks
  | close (c : Nat)         -- `close(ch)`
  | release (p : Nat)       -- a handler issues the release of an item of priority p
  | stop                    -- v1: `Stop()` / context cancellation becomes visible
  | graceful                -- v1: `GracefulStop()` is called
  -- discipline
  | top (c : TopChoice)     -- v1: which case the loop-top `select` takes
  | calc                    -- `calcTactic()`
  | consume (p : Nat)       -- a feedback value p is received
  | stopSeen                -- v1: a `select` takes the breaker / ctx case
  | pollItem                -- `io`/`iou`: an item is received and sent to the output
  | pollDrop                -- v1: an item is received, the send is aborted by stop
  | pollClosed              -- `!opened`: the input is marked drained
  | pollEmpty               -- `default` (buffered) / second tick (unbuffered)
  | skip                    -- input drained or `tactic[p] == 0`
  | recalc                  -- `recalcTactic()`
  | endRound                -- the `processed == 0` test of `loop`
  | limitedStop             -- `getLimitedFeedback` returns
  | exit                    -- `waitZeroActual` returns, deferred closes run
  deriving Repr, DecidableEq

/-- `actual[p]--`; wraps (fault) when the entry is zero -/
def decActual (s : St) (p : Nat) : St :=
  if s.actual.get p = 0 then { s with pc := .fault }
  else { s with actual := s.actual.set p (s.actual.get p - 1) }

/-- `clearActual` (v1): zero entries of priorities without an input are deleted -/
def clearActual (inputs : List (Nat × Input)) : Dist → Dist
  | [] => []
  | (k, v) :: r =>
    if v = 0 ∧ (alGet inputs k).isNone then clearActual inputs r else (k, v) :: clearActual inputs r

def allDrained (inputs : List (Nat × Input)) : Bool := inputs.all (fun kv => kv.2.drained)

/-- v1: `dsc.strategic = dsc.opts.Divider(dsc.priorities, H, nil)` — no checking at all -/
def restrategize (div : DivFn) (s : St) (prios : List Nat) : St :=
  { s with prios := prios,
           strategic := if prios = [] then [] else div s.calls prios s.cfg.H [],
           calls := s.calls + 1,
           log := s.log ++ [(prios, s.cfg.H)] }

/-- after the loop-top `select` of v1: `clearActual`, then `base()` starts -/
def afterTop (s : St) : St :=
  { s with actual := clearActual s.inputs s.actual, pc := .calc, processed := 0 }

def stepTop (div : DivFn) (s : St) : TopChoice → Option St
  | .stop => if s.stopped then some { s with pc := .drain none } else none
  | .add p c b =>
    let chans := if (alGet s.chans c).isSome then s.chans else alSet s.chans c ⟨[], false, b⟩
    let exists_ := (alGet s.inputs p).isSome
    let s1 := { s with inputs := alSet s.inputs p ⟨c, false⟩, chans := chans }
    let prios := if exists_ then s.prios else s.prios ++ [p]
    some (afterTop (restrategize div s1 (sortDesc prios)))
  | .remove p =>
    let s1 := { s with inputs := alErase s.inputs p, tactic := s.tactic.erase p }
    some (afterTop (restrategize div s1 (s.prios.filter (· ≠ p))))
  | .feedback p =>
    if p ∈ s.pending then
      let s1 := decActual { s with pending := s.pending.erase p } p
      if s1.pc = .fault then some s1 else some (afterTop s1)
    else none
  | .none => some (afterTop s)

/-- `calcTactic` -/
def stepCalc (div : DivFn) (s : St) : St :=
  let busy := s.actual.total
  if s.cfg.H < busy then
    (if s.cfg.v1 then { s with pc := .drain (some .quantityExceeded) } else { s with pc := .fault })
  else
    let r := calcTacticWith (div s.calls) s.prios s.actual s.strategic s.tactic (s.cfg.H - busy)
    let s1 := { s with tactic := r.tactic, calls := s.calls + r.calls, log := s.log ++ r.divArgs }
    match r.verdict with
    | .ok true => { s1 with pc := .prio 1 s.prios }
    | .ok false => { s1 with pc := .waitFb }
    | .error e => { s1 with pc := .drain (some e) }

/-- `recalcTactic` -/
def stepRecalc (div : DivFn) (s : St) : St :=
  let r := recalcTacticWith div s.calls s.cfg.H s.prios s.actual s.tactic
  let s1 := { s with tactic := r.tactic, calls := s.calls + r.calls, log := s.log ++ r.divArgs }
  match r.verdict with
  | .ok true => { s1 with pc := .prio 2 s.prios }
  | .ok false => { s1 with pc := .prio 2 [] }
  | .error e => { s1 with pc := .drain (some e) }

/-- after `getOneFeedback` in v1's repaired `waitCalcTactic`: leave when stopped -/
def afterWaitFb (s : St) : St :=
  if s.cfg.v1 ∧ s.stopped then { s with tactic := s.tactic.zeroAll, pc := .prio 1 s.prios }
  else { s with pc := .calc }

def nextRound (s : St) : St :=
  { s with pc := if s.cfg.v1 then .top else .calc, processed := 0 }

/-- the poll actions on the head priority `p` of `prio phase (p :: rest)` -/
def stepPoll (s : St) (phase p : Nat) (rest : List Nat) (a : Act) : Option St :=
  match alGet s.inputs p with
  | none => if a = .skip then some { s with pc := .prio phase rest } else none
  | some inp =>
    if inp.drained ∨ s.tactic.get p = 0 then
      (if a = .skip then some { s with pc := .prio phase rest } else none)
    else
      match alGet s.chans inp.chan with
      | none => none
      | some ch =>
        match a with
        | .pollItem =>
          match ch.queue with
          | [] => none
          | x :: q =>
            some { s with
              chans := alSet s.chans inp.chan { ch with queue := q },
              taken := s.taken ++ [(inp.chan, x)],
              delivered := s.delivered ++ [(p, inp.chan, x)],
              tactic := s.tactic.set p (s.tactic.get p - 1),
              actual := s.actual.add p 1,
              inflight := s.inflight.add p 1,
              processed := s.processed + 1 }
        | .pollDrop =>
          if s.cfg.v1 ∧ s.stopped then
            match ch.queue with
            | [] => none
            | x :: q =>
              some { s with
                chans := alSet s.chans inp.chan { ch with queue := q },
                taken := s.taken ++ [(inp.chan, x)],
                dropped := s.dropped ++ [(p, inp.chan, x)] }
          else none
        | .pollClosed =>
          if ch.queue = [] ∧ ch.closed then
            some { s with inputs := alSet s.inputs p { inp with drained := true },
                          pc := .prio phase rest }
          else none
        | .pollEmpty =>
          if ¬ ch.buffered ∨ (ch.queue = [] ∧ ¬ ch.closed) then some { s with pc := .prio phase rest }
          else none
        | .stopSeen =>
          if s.cfg.v1 ∧ s.stopped then some { s with pc := .prio phase rest } else none
        | _ => none

/-- one step; `none` = the action is not enabled in this state -/
def step (div : DivFn) (s : St) (a : Act) : Option St :=
  match a with
  -- environment actions are enabled in every control state
  | .arrive c x =>
    match alGet s.chans c with
    | some ch =>
      if ch.closed then none
      else some { s with chans := alSet s.chans c { ch with queue := ch.queue ++ [x] },
                         arrived := s.arrived ++ [(c, x)] }
    | none => none
  | .close c =>
    match alGet s.chans c with
    | some ch => some { s with chans := alSet s.chans c { ch with closed := true } }
    | none => none
  | .release p =>
    if s.inflight.get p = 0 then none
    else some { s with inflight := s.inflight.set p (s.inflight.get p - 1), pending := s.pending ++ [p] }
  | .stop => if s.cfg.v1 then some { s with stopped := true } else none
  | .graceful => if s.cfg.v1 then some { s with graceful := true } else none
  -- discipline actions
  | a =>
    match s.pc with
    | .top => (match a with | .top c => (if s.cfg.v1 then stepTop div s c else none) | _ => none)
    | .calc => (match a with | .calc => some (stepCalc div s) | _ => none)
    | .waitFb =>
      (match a with
       | .consume p =>
         if p ∈ s.pending then
           let s1 := decActual { s with pending := s.pending.erase p } p
           if s1.pc = .fault then some s1 else some (afterWaitFb s1)
         else none
       | .stopSeen => if s.cfg.v1 ∧ s.stopped then some (afterWaitFb s) else none
       | _ => none)
    | .prio phase [] =>
      (match a with
       | .recalc => if phase = 1 then some (stepRecalc div s) else none
       | .endRound =>
         if phase = 1 then none
         else if s.processed = 0 ∧ (¬ s.cfg.v1 ∨ s.graceful) ∧ allDrained s.inputs then
           some { s with pc := .drain none }
         else some { s with pc := .limited s.cfg.fbLimit }
       | _ => none)
    | .prio phase (p :: rest) => stepPoll s phase p rest a
    | .limited k =>
      (match a with
       | .consume p =>
         if k = 0 ∨ p ∉ s.pending then none
         else
           let s1 := decActual { s with pending := s.pending.erase p } p
           if s1.pc = .fault then some s1 else some { s1 with pc := .limited (k - 1) }
       | .limitedStop => some (nextRound s)
       | .stopSeen => if s.cfg.v1 ∧ s.stopped then some (nextRound s) else none
       | _ => none)
    | .drain e =>
      (match a with
       | .consume p =>
         if s.actual.allZero ∨ p ∉ s.pending then none
         else some (decActual { s with pending := s.pending.erase p } p)
       | .exit => if s.actual.allZero then some { s with pc := .done e } else none
       | .stopSeen => if s.cfg.v1 ∧ s.stopped then some { s with pc := .done e } else none
       | _ => none)
    | .done _ => none
    | .fault => none

/-- a run: the actions are applied in order; `none` if one of them is not enabled -/
def run (div : DivFn) (s : St) : List Act → Option St
  | [] => some s
  | a :: as => match step div s a with
    | some s' => run div s' as
    | none => none

/-! ### initial states -/

def emptySt (cfg : Cfg) : St :=
  { cfg := cfg, prios := [], inputs := [], chans := [], actual := [], strategic := [], tactic := [],
    pending := [], calls := 0, processed := 0, stopped := false, graceful := false, pc := .calc,
    delivered := [], dropped := [], taken := [], arrived := [], inflight := [], log := [] }

/-- channels `(priority, buffered)`; the channel id of a priority is the priority itself -/
def mkInputs (keys : List (Nat × Bool)) : List (Nat × Input) × List (Nat × Chan) :=
  (keys.map (fun kb => (kb.1, ⟨kb.1, false⟩)), keys.map (fun kb => (kb.1, ⟨[], false, kb.2⟩)))

/-- v2 `New`: `prepare` (sorted priorities, checked strategic distribution), feedback limit -/
def initV2 (div : DivFn) (keys : List (Nat × Bool)) (H : Nat) : Except Err St :=
  match prepareV2 (div 0) (keys.map (·.1)) H with
  | .error e => .error e
  | .ok (ps, strategic) =>
    let io := mkInputs keys
    .ok { emptySt ⟨false, H, divideWithMin H 10 keys.length⟩ with
          prios := ps, inputs := io.1, chans := io.2, strategic := strategic, calls := 1,
          log := [(ps, H)], pc := .calc }

/-- v1 `New`: `updateInputs` — one unchecked divider call on a nil map -/
def initV1 (div : DivFn) (keys : List (Nat × Bool)) (H : Nat) : St :=
  let io := mkInputs keys
  let ps := sortDesc (keys.map (·.1))
  { emptySt ⟨true, H, divideWithMin H 10 1⟩ with
    prios := ps, inputs := io.1, chans := io.2,
    strategic := if ps = [] then [] else div 0 ps H [], calls := 1, log := [(ps, H)], pc := .top }

end Cqos
