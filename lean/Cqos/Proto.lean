import Cqos.Tactic
/-
  Line protocol helpers shared by all driver modes: parsing and canonical printing.
  Lists are `a,b,c` (`-` when empty); maps are `k:v,k:v` sorted by key (`-` when empty,
  `nil` for a nil map); lists of lists use `;`.
-/
namespace Cqos.Proto

def parseNat? (s : String) : Option Nat := s.toNat?

def parseInt? (s : String) : Option Int := s.toInt?

def parseList? (s : String) : Option (List Nat) :=
  if s == "-" then some [] else (s.splitOn ",").mapM parseNat?

def parseKV? (s : String) : Option (Nat × Nat) :=
  match s.splitOn ":" with
  | [k, v] => do some (← parseNat? k, ← parseNat? v)
  | _ => none

/-- `nil` ↦ `none`; the order of the entries on the line is kept (the Go side prints
    them sorted by key, which fixes the model's association-list order) -/
def parseMap? (s : String) : Option (Option Dist) :=
  if s == "nil" then some none
  else if s == "-" then some (some [])
  else ((s.splitOn ",").mapM parseKV?).map some

def showList (l : List Nat) : String :=
  if l.isEmpty then "-" else ",".intercalate (l.map toString)

def showLists (l : List (List Nat)) : String :=
  if l.isEmpty then "-" else ";".intercalate (l.map showList)

def showDist (m : Dist) : String :=
  if m.isEmpty then "-"
  else ",".intercalate (m.sorted.map fun (k, v) => s!"{k}:{v}")

/-- only the non-zero entries: used where key presence is not part of the comparison -/
def showDistNZ (m : Dist) : String :=
  showDist (m.filter (fun kv => kv.2 != 0))

def showOptDist : Option Dist → String
  | none => "nil"
  | some m => showDist m

def showBool (b : Bool) : String := if b then "1" else "0"

def showErr : Err → String
  | .dividerBad => "divider-bad"
  | .quantityExceeded => "quantity-exceeded"
  | .tooSmall => "too-small"

end Cqos.Proto
