import Cqos.Utils
/-
  The pure "round calculus" shared by v1 and v2 priority disciplines
  (`calcTactic`, `calcTacticByAddUpToStrategic`, `calcTacticBase`, `recalcTactic`,
  `safeDivide`, `prepare`).  The divider is an arbitrary function, indexed by the number
  of divider calls made so far (so stateful / faulty dividers are covered).
-/
namespace Cqos

inductive Err
  | dividerBad          -- ErrDividerBad
  | quantityExceeded    -- v1 ErrQuantityExceeded
  | tooSmall            -- v2 ErrHandlersQuantityTooSmall
  deriving DecidableEq, Repr

/-- call-indexed divider -/
abbrev DivFn := Nat → List Nat → Nat → Dist → Dist

/-- `safeDivide`: the (mutated) map and the verdict.  `after - before` is an unsigned
    subtraction in Go; `after < before` wraps to a huge value which cannot equal a
    dividend `≤ H` (domain assumption `H, totals < 2^63`), so it is a mismatch too. -/
def safeDivide (div : List Nat → Nat → Dist → Dist) (ps : List Nat) (d : Nat) (m : Dist) :
    Dist × Option Err :=
  let m' := div ps d m
  if m'.total = 0 then (m', none)
  else if m'.total < m.total then (m', some .dividerBad)
  else if m'.total - m.total ≠ d then (m', some .dividerBad)
  else (m', none)

/-- `isTacticFilled(priorities)` / `IsDistributionFilledFor` -/
abbrev tacticFilled (ps : List Nat) (t : Dist) : Bool := filledFor ps t

/-- loop of `calcTacticByAddUpToStrategic`; `none` = left through `return false` -/
def addUpLoop (actual strategic : Dist) : List Nat → Dist → Nat → Dist × Option Nat
  | [], t, picked => (t, some picked)
  | p :: ps, t, picked =>
    if actual.get p > strategic.get p then (t, none)
    else
      let v := strategic.get p - actual.get p
      addUpLoop actual strategic ps (t.set p v) (picked + v)

/-- `calcTacticByAddUpToStrategic` -/
def calcAddUp (prios : List Nat) (actual strategic tactic : Dist) (vacants : Nat) : Dist × Bool :=
  match addUpLoop actual strategic prios tactic.zeroAll 0 with
  | (t, none) => (t, false)
  | (t, some picked) => (t, picked == vacants)

/-- `updateUncrowded` -/
def uncrowded (prios : List Nat) (actual strategic : Dist) : List Nat :=
  prios.filter (fun p => actual.get p < strategic.get p)

/-- `calcTacticBase` -/
def calcBase (div : List Nat → Nat → Dist → Dist) (prios : List Nat)
    (actual strategic tactic : Dist) (vacants : Nat) : Dist × Except Err Bool :=
  let unc := uncrowded prios actual strategic
  match safeDivide div unc vacants tactic.zeroAll with
  | (t, some e) => (t, .error e)
  | (t, none) => (t, .ok (tacticFilled unc t))

/-- result of one `calcTactic` call: new tactic, verdict, number of divider calls made -/
structure CalcResult where
  tactic : Dist
  verdict : Except Err Bool
  calls : Nat
  divArgs : List (List Nat × Nat)   -- (priorities, dividend) of the divider calls made

/-- `calcTactic` given `vacants` (computed by the caller: v1 and v2 differ there) -/
def calcTacticWith (div : List Nat → Nat → Dist → Dist) (prios : List Nat)
    (actual strategic tactic : Dist) (vacants : Nat) : CalcResult :=
  if vacants = 0 then ⟨tactic, .ok false, 0, []⟩
  else
    match calcAddUp prios actual strategic tactic vacants with
    | (t, true) => ⟨t, .ok true, 0, []⟩
    | (t, false) =>
      let r := calcBase div prios actual strategic t vacants
      ⟨r.1, r.2, 1, [(uncrowded prios actual strategic, vacants)]⟩

/-- `updateUseful` -/
def useful1 (prios : List Nat) (tactic : Dist) : List Nat :=
  prios.filter (fun p => tactic.get p == 0)

/-- `updateUsefulLikeUncrowded` -/
def useful2 (prios : List Nat) (actual tactic : Dist) : List Nat :=
  prios.filter (fun p => actual.get p < tactic.get p)

/-- `recalcTactic`; the two divider calls get indices `i` and `i+1` -/
def recalcTacticWith (div : DivFn) (i : Nat) (H : Nat) (prios : List Nat)
    (actual tactic : Dist) : CalcResult :=
  let remainder := tactic.total
  let u1 := useful1 prios tactic
  match safeDivide (div i) u1 H tactic.zeroAll with
  | (t, some e) => ⟨t, .error e, 1, [(u1, H)]⟩
  | (t, none) =>
    let u2 := useful2 prios actual t
    match safeDivide (div (i + 1)) u2 remainder t.zeroAll with
    | (t2, some e) => ⟨t2, .error e, 2, [(u1, H), (u2, remainder)]⟩
    | (t2, none) => ⟨t2, .ok (tacticFilled u2 t2), 2, [(u1, H), (u2, remainder)]⟩

/-- v2 `prepare`: sorted priorities and the strategic distribution, or an error
    (after the repair of D2 the filled test looks at every LISTED priority) -/
def prepareV2 (div : List Nat → Nat → Dist → Dist) (keys : List Nat) (H : Nat) :
    Except Err (List Nat × Dist) :=
  let ps := sortDesc keys
  match safeDivide div ps H [] with
  | (_, some e) => .error e
  | (s, none) => if filledFor ps s then .ok (ps, s) else .error .tooSmall

/-- the same with the unrepaired test (present keys only) -/
def prepareV2Unfixed (div : List Nat → Nat → Dist → Dist) (keys : List Nat) (H : Nat) :
    Except Err (List Nat × Dist) :=
  let ps := sortDesc keys
  match safeDivide div ps H [] with
  | (_, some e) => .error e
  | (s, none) => if s.filled then .ok (ps, s) else .error .tooSmall

end Cqos
