/-
  The termination protocol of v1 `priority.Simple` (priority/simple.go: `main`, `gracefulStop`,
  `handler`, `Stop`, `GracefulStop`) as a small machine of four kinds of processes:

    * `main`     — the goroutine started by `NewSimple`;
    * the helper — started by `gracefulStop` (repair of defect D4), blocked inside the inner
                   discipline's `GracefulStop()` until the inner discipline has terminated;
    * the inner prioritization discipline, abstracted to "terminates after `Stop()`, or after
      `GracefulStop()` once the inputs are closed and drained and the handlers are still there
      to serve it" (that it does so is C16 / C07 on the scheduler machine);
    * the handler goroutines, abstracted to "return once their context is cancelled"
      (`Handle` honours its context).

  The user (environment) may at any time call `Stop()`, cancel the context, call
  `GracefulStop()`, close and drain the inputs.  The composition encoded here is what the
  regenerated glue skeleton of `Simple.main`, `Simple.gracefulStop` and `Simple.handler` pins
  (Facts/GluePrioV1.lean); `unfixed := true` is the composition before the repair: `main`
  calls `priority.GracefulStop()` itself.
-/
namespace Cqos.SimpleV1

inductive MainPc
  | select          -- the select of `main`
  | inGraceful      -- `gracefulStop`: helper started, waiting for done / breaker / ctx
  | gracefulSync    -- (unfixed) blocked inside `smpl.priority.GracefulStop()`
  | stopInner       -- `gracefulStop`: `smpl.priority.Stop()` called, waiting for it to return
  | waitHelper      -- `gracefulStop`: `<-done`
  | deferStop       -- deferred `smpl.priority.Stop()`: waiting for it to return
  | deferCancel     -- deferred `cancel()`
  | deferWait       -- deferred `smpl.wg.Wait()`
  | completed       -- channels closed, `breaker.Complete()`: `Stop()` / `GracefulStop()` return
  deriving DecidableEq, Repr

inductive Helper | none | blocked | finished
  deriving DecidableEq, Repr

structure PSt where
  unfixed : Bool
  stopReq : Bool            -- `Stop()` was called
  ctxDone : Bool            -- the user's context is cancelled
  gracefulReq : Bool        -- `GracefulStop()` was called
  drained : Bool            -- every input closed and empty
  innerStop : Bool          -- `priority.Stop()` was called
  innerGraceful : Bool      -- `priority.GracefulStop()` was called
  innerDone : Bool          -- the inner discipline has terminated
  hctx : Bool               -- the handlers' derived context is cancelled
  handlers : Nat            -- handler goroutines that have not returned yet
  helper : Helper
  pc : MainPc
  deriving DecidableEq, Repr

inductive PAct
  -- the user
  | stop | cancel | graceful | drain
  -- main
  | selStop          -- select takes `breaker.IsBreaked()` or `Ctx.Done()`
  | selGraceful      -- select takes `graceful.IsBreaked()`
  | selErr           -- select takes `priority.Err()`
  | gDone            -- gracefulStop: `<-done`
  | gStop            -- gracefulStop: breaker / ctx case, then `priority.Stop()` is called
  | innerStopped     -- a blocking `priority.Stop()` / `priority.GracefulStop()` call of main returns
  | helperJoined     -- `<-done` after `priority.Stop()`
  | cancelHandlers   -- deferred `cancel()`
  | handlersGone     -- deferred `wg.Wait()` returns
  -- the other processes
  | innerFinish      -- the inner discipline terminates
  | helperReturn     -- the helper's `GracefulStop()` returns, `close(done)`
  | handlerExit      -- one handler goroutine returns
  deriving DecidableEq, Repr

def init (unfixed : Bool) (handlers : Nat) : PSt :=
  { unfixed := unfixed, stopReq := false, ctxDone := false, gracefulReq := false, drained := false,
    innerStop := false, innerGraceful := false, innerDone := false, hctx := false, handlers := handlers,
    helper := .none, pc := .select }

def isEnv : PAct → Bool
  | .stop | .cancel | .graceful | .drain => true
  | _ => false

def pstep (s : PSt) : PAct → Option PSt
  | .stop => some { s with stopReq := true }
  | .cancel => some { s with ctxDone := true, hctx := true }
  | .graceful => some { s with gracefulReq := true }
  | .drain => some { s with drained := true }
  | .selStop =>
    if s.pc = .select ∧ (s.stopReq ∨ s.ctxDone) then some { s with pc := .deferStop, innerStop := true } else none
  | .selErr =>
    if s.pc = .select ∧ s.innerDone then some { s with pc := .deferStop, innerStop := true } else none
  | .selGraceful =>
    if s.pc = .select ∧ s.gracefulReq then
      (if s.unfixed then some { s with pc := .gracefulSync, innerGraceful := true }
       else some { s with pc := .inGraceful, innerGraceful := true, helper := .blocked })
    else none
  | .gDone =>
    if s.pc = .inGraceful ∧ s.helper = .finished then some { s with pc := .deferStop, innerStop := true } else none
  | .gStop =>
    if s.pc = .inGraceful ∧ (s.stopReq ∨ s.ctxDone) then some { s with pc := .stopInner, innerStop := true } else none
  | .innerStopped =>
    if s.innerDone then
      (match s.pc with
       | .stopInner => some { s with pc := .waitHelper }
       | .deferStop => some { s with pc := .deferCancel }
       | .gracefulSync => some { s with pc := .deferStop, innerStop := true }
       | _ => none)
    else none
  | .helperJoined =>
    if s.pc = .waitHelper ∧ s.helper = .finished then some { s with pc := .deferStop, innerStop := true } else none
  | .cancelHandlers => if s.pc = .deferCancel then some { s with pc := .deferWait, hctx := true } else none
  | .handlersGone => if s.pc = .deferWait ∧ s.handlers = 0 then some { s with pc := .completed } else none
  | .innerFinish =>
    if ¬ s.innerDone ∧ (s.innerStop ∨ (s.innerGraceful ∧ s.drained ∧ ¬ s.hctx)) then some { s with innerDone := true }
    else none
  | .helperReturn => if s.helper = .blocked ∧ s.innerDone then some { s with helper := .finished } else none
  | .handlerExit => if s.hctx ∧ 0 < s.handlers then some { s with handlers := s.handlers - 1 } else none

def prun (s : PSt) : List PAct → Option PSt
  | [] => some s
  | a :: as => match pstep s a with
    | some s' => prun s' as
    | none => none

end Cqos.SimpleV1
