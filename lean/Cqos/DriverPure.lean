import Cqos.Proto
import Cqos.Rate
/-
  Driver operations for the pure functions (correspondence class A).
-/
namespace Cqos.DriverPure
open Cqos.Proto

def divByName? : String → Option Div
  | "fair" => some fair
  | "rate" => some rate
  | "lowfirst" => some lowfirst
  | "quota" => some quota
  | _ => none

def showRateErr : RateErr → String
  | .intervalNegative => "interval-negative"
  | .intervalZero => "interval-zero"
  | .quantityZero => "quantity-zero"
  | .minimumNegative => "minimum-negative"
  | .convertedIntervalZero => "converted-interval-zero"
  | .quantityUnrepresentable => "quantity-unrepresentable"

def showRateRes : Except RateErr LRate → String
  | .ok r => s!"ok {r.interval} {r.quantity}"
  | .error e => s!"err {showRateErr e} 0 0"

def showIntervalRes : Except IntervalErr Int → String
  | .ok i => s!"ok {i}"
  | .error .inaccuracyZero => "err inaccuracy-zero"
  | .error .inaccuracyTooBig => "err inaccuracy-too-big"
  | .error .timeoutTooSmall => "err timeout-too-small"

def floatOfRatio (a b : Nat) : Float := Float.ofNat a / Float.ofNat b

/-- one request line (already split) ↦ reply; `none` = not a pure operation -/
def op (toks : List String) : Option String :=
  match toks with
  -- dividers: `fair2 ps d map` ... reply = resulting map (non-zero entries) ; `nil` stays
  | ["fair2", ps, d, m] => do
      let r := fairV2 (← parseList? ps) (← parseNat? d) (← parseMap? m)
      some (match r with | none => "nil" | some x => showDistNZ x)
  | ["rate2", ps, d, m] => do
      let ps ← parseList? ps; let d ← parseNat? d
      let r := rateV2 ps d (← parseMap? m)
      let hyp := if floatHypsHold ps d then "" else " float-hypothesis-fails"
      some ((match r with | none => "nil" | some x => showDistNZ x) ++ hyp)
  | ["fair1", ps, d, m] => do
      let r := fairV1 (← parseList? ps) (← parseNat? d) (← parseMap? m)
      some (match r with | none => "nil" | some x => showDistNZ x)
  | ["rate1", ps, d, m] => do
      let r := rateV1 (← parseList? ps) (← parseNat? d) (← parseMap? m)
      some (match r with | none => "nil" | some x => showDistNZ x)
  -- with key presence (used by the scheduler-related comparisons)
  | ["fairk", ps, d, m] => do
      let r := fairV2 (← parseList? ps) (← parseNat? d) (← parseMap? m)
      some (showOptDist r)
  | ["ratek", ps, d, m] => do
      let r := rateV2 (← parseList? ps) (← parseNat? d) (← parseMap? m)
      some (showOptDist r)
  | ["sort", ps] => do some (showList (sortDesc (← parseList? ps)))
  | ["sum", ps] => do some (toString (sumPriorities (← parseList? ps)))
  | ["dwm", b, d, m] => do
      some (toString (divideWithMin (← parseNat? b) (← parseNat? d) (← parseNat? m)))
  -- limit.Rate
  | ["isvalid", i, q] => do
      let r : LRate := ⟨← parseInt? i, ← parseNat? q⟩
      some (match r.isValid with | none => "ok" | some e => s!"err {showRateErr e}")
  | ["recalc", i, q, m] => do
      some (showRateRes (LRate.recalculate ⟨← parseInt? i, ← parseNat? q⟩ (← parseInt? m)))
  | ["optimize", i, q] => do
      some (showRateRes (LRate.optimize ⟨← parseInt? i, ← parseNat? q⟩))
  | ["flatten", i, q] => do
      some (showRateRes (LRate.flatten ⟨← parseInt? i, ← parseNat? q⟩))
  | ["cii2", t, a] => do
      some (showIntervalRes (calcInterruptIntervalV2 (← parseInt? t) (← parseNat? a)))
  | ["cii1", t, a] => do
      some (showIntervalRes (calcInterruptIntervalV1 (← parseInt? t) (← parseNat? a)))
  -- utils
  | ["comb", ps] => do some (showLists (genCombinations (← parseList? ps) []))
  | ["nonfatal", dv, ps, q] => do
      some (showBool (isNonFatal (← parseList? ps) (← divByName? dv) (← parseNat? q)))
  | ["suitable", dv, ps, q, la, lb] => do
      some (showBool (isSuitable (← parseList? ps) (← divByName? dv) (← parseNat? q)
        (floatOfRatio (← parseNat? la) (← parseNat? lb))))
  | ["pickminnf", dv, ps, mx] => do
      let ps ← parseList? ps; let dv ← divByName? dv
      some (toString (pickUpMin (isNonFatal ps dv) (← parseNat? mx)))
  | ["pickmaxnf", dv, ps, mx] => do
      let ps ← parseList? ps; let dv ← divByName? dv
      some (toString (pickUpMax (isNonFatal ps dv) (← parseNat? mx)))
  | ["pickmins", dv, ps, mx, la, lb] => do
      let ps ← parseList? ps; let dv ← divByName? dv
      let l := floatOfRatio (← parseNat? la) (← parseNat? lb)
      some (toString (pickUpMin (fun q => isSuitable ps dv q l) (← parseNat? mx)))
  | ["pickmaxs", dv, ps, mx, la, lb] => do
      let ps ← parseList? ps; let dv ← divByName? dv
      let l := floatOfRatio (← parseNat? la) (← parseNat? lb)
      some (toString (pickUpMax (fun q => isSuitable ps dv q l) (← parseNat? mx)))
  | ["prepare", dv, keys, h] => do
      let r := prepareV2 (← divByName? dv) (← parseList? keys) (← parseNat? h)
      some (match r with
        | .ok (ps, s) => s!"ok {showList ps} {showDistNZ s}"
        | .error e => s!"err {showErr e}")
  -- float facts used as hypotheses of C14 (reported, see Props/C14)
  | ["part", d, s, p] => do
      let d ← parseNat? d; let s ← parseNat? s; let p ← parseNat? p
      some s!"{floatPart d s p} {exactPart d s p}"
  -- black-box scenario marker: the reply is `ok` (the implementation side answers `ok` only
  -- when the scenario met all its monitors)
  | "note" :: _ => some "ok"
  | _ => none

end Cqos.DriverPure
