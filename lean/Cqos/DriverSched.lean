import Cqos.Sched
import Cqos.Proto
/-
  Driver operations for the scheduler machine (correspondence class B: white-box stepper).
  The driver executes the SAME `step` function the theorems are about, under a
  deterministic resolver of the discipline's choices (`nextAct`): poll outcome from the
  queue contents, oldest pending release first.  `drive_is_run` (Props/C01) shows that
  whatever the driver computes is a run of the machine.
-/
namespace Cqos

/-- deterministic resolution of the discipline's next micro-step inside `base()` -/
def nextAct (s : St) : Option Act :=
  match s.pc with
  | .calc => some .calc
  | .waitFb =>
    if s.cfg.v1 ∧ s.stopped then some .stopSeen
    else match s.pending with
      | p :: _ => some (.consume p)
      | [] => none
  | .prio 1 [] => some .recalc
  | .prio _ [] => none
  | .prio _ (p :: _) =>
    match alGet s.inputs p with
    | none => some .skip
    | some inp =>
      if inp.drained ∨ s.tactic.get p = 0 then some .skip
      else
        match alGet s.chans inp.chan with
        | none => none
        | some ch =>
          if s.cfg.v1 ∧ s.stopped then some .stopSeen
          else match ch.queue with
            | _ :: _ => if ch.buffered then some .pollItem else some .pollEmpty
            | [] => if ch.closed then some .pollClosed else some .pollEmpty
  | _ => none

/-- apply `nextAct` until it yields nothing (or the fuel runs out) -/
def drive (div : DivFn) : Nat → St → St
  | 0, s => s
  | fuel + 1, s =>
    match nextAct s with
    | none => s
    | some a =>
      match step div s a with
      | none => s
      | some s' => drive div fuel s'

/-- `waitCalcTactic`: like `drive` but stops as soon as the control state leaves calc/waitFb -/
def driveWct (div : DivFn) : Nat → St → St
  | 0, s => s
  | fuel + 1, s =>
    if s.pc = .calc ∨ s.pc = .waitFb then
      (match nextAct s with
       | none => s
       | some a =>
         match step div s a with
         | none => s
         | some s' => driveWct div fuel s')
    else s

/-- like `drive` but stops as soon as the control state is no longer inside `prioritize` -/
def drivePrio (div : DivFn) : Nat → St → St
  | 0, s => s
  | fuel + 1, s =>
    match s.pc with
    | .prio _ (_ :: _) =>
      (match nextAct s with
       | none => s
       | some a =>
         match step div s a with
         | none => s
         | some s' => drivePrio div fuel s')
    | _ => s

/-- consume up to `n` of the oldest pending releases (a `getLimitedFeedback` that finds
    `n` values in the channel) -/
def consumeN (div : DivFn) : Nat → St → St
  | 0, s => s
  | n + 1, s =>
    match s.pending with
    | [] => s
    | p :: _ =>
      match step div s (.consume p) with
      | none => s
      | some s' => consumeN div n s'

namespace DriverSched
open Cqos.Proto

/-- fault-injecting divider wrappers (mirrored by the Go harness) -/
inductive Fault
  | none
  | over (call key delta : Nat)    -- after the real division add `delta` to `key`
  | under (call key delta : Nat)   -- ... subtract `delta` from `key` (if it has that much)
  | zero (call : Nat)              -- the divider adds nothing at this call
  | park (spare key delta : Nat)   -- sum-preserving: every call after the first moves `delta` from `key` to `spare`
  deriving Repr

def mkDiv (base : Div) (f : Fault) : DivFn := fun idx ps d m =>
  match f with
  | .none => base ps d m
  | .over c k dl => if idx = c then (base ps d m).add k dl else base ps d m
  | .under c k dl =>
    if idx = c then
      let r := base ps d m
      if r.get k ≥ dl then r.set k (r.get k - dl) else r
    else base ps d m
  | .zero c => if idx = c then m else base ps d m
  | .park sp k dl =>
    let r := base ps d m
    if idx ≠ 0 ∧ r.get k ≥ dl then (r.set k (r.get k - dl)).add sp dl else r

structure Session where
  div : DivFn
  st : St
  printed : Nat

def showPc : Pc → String
  | .top => "top" | .calc => "calc" | .waitFb => "waitfb"
  | .prio ph rest => s!"prio{ph}:{showList rest}"
  | .limited k => s!"limited{k}"
  | .drain none => "drain" | .drain (some e) => s!"drain:{showErr e}"
  | .done none => "done" | .done (some e) => s!"done:{showErr e}"
  | .fault => "fault"

def drainedPrios (s : St) : List Nat :=
  (s.inputs.filter (fun kv => kv.2.drained)).map (·.1)

def sortNat (l : List Nat) : List Nat := (sortDesc l).reverse

def showOut (l : List (Nat × Nat × Nat)) : String :=
  if l.isEmpty then "-" else ",".intercalate (l.map fun (p, _, x) => s!"{p}/{x}")

/-- semantic projection of the state printed after every operation -/
def snapshot (ss : Session) : String × Session :=
  let s := ss.st
  let news := s.delivered.drop ss.printed
  (s!"a={showDistNZ s.actual} t={showDistNZ s.tactic} s={showDistNZ s.strategic} " ++
   s!"pr={showList s.prios} dr={showList (sortNat (drainedPrios s))} out={showOut news} pend={s.pending.length}",
   { ss with printed := s.delivered.length })

def reply (status : String) (ss : Session) : String × Session :=
  let (snap, ss') := snapshot ss
  (status ++ " " ++ snap, ss')

def parseFault? (s : String) : Option Fault :=
  match s.splitOn ":" with
  | ["none"] => some .none
  | [c, "over", k, d] => do some (.over (← parseNat? c) (← parseNat? k) (← parseNat? d))
  | [c, "under", k, d] => do some (.under (← parseNat? c) (← parseNat? k) (← parseNat? d))
  | [c, "zero"] => do some (.zero (← parseNat? c))
  | [sp, "park", k, d] => do some (.park (← parseNat? sp) (← parseNat? k) (← parseNat? d))
  | _ => none

def parseKeys? (s : String) : Option (List (Nat × Bool)) :=
  if s == "-" then some []
  else (s.splitOn ",").mapM fun f => do
    let (k, b) ← parseKV? f
    some (k, b != 0)

def baseDiv? : String → Option Div
  | "fair" => some fair
  | "rate" => some rate
  | _ => none

def fuel : Nat := 1000000

def errStatus : Option Err → String
  | none => "ok"
  | some e => s!"err:{showErr e}"

/-- `cfg v2|v1 fair|rate H keys fault` -/
def startSession (toks : List String) : Option (String × Option Session) :=
  match toks with
  | ["cfg", ver, dv, h, keys, fault] => do
    let base ← baseDiv? dv
    let h ← parseNat? h
    let keys ← parseKeys? keys
    let f ← parseFault? fault
    let div := mkDiv base f
    if ver == "v2" then
      match initV2 div keys h with
      | .error e => some (s!"err:{showErr e}", none)
      | .ok st =>
        let (r, ss) := reply "ok" ⟨div, st, 0⟩
        some (r, some ss)
    else if ver == "v1" then
      let (r, ss) := reply "ok" ⟨div, initV1 div keys h, 0⟩
      some (r, some ss)
    else none
  | _ => none

def applyAct (ss : Session) (a : Act) : Option Session :=
  (step ss.div ss.st a).map fun st => { ss with st := st }

/-- one stepper operation -/
def op (ss : Session) (toks : List String) : Option (String × Session) :=
  let s := ss.st
  match toks with
  | ["arrive", c, x] => do
    let ss' ← applyAct ss (.arrive (← parseNat? c) (← parseNat? x)); some (reply "ok" ss')
  | ["close", c] => do
    let ss' ← applyAct ss (.close (← parseNat? c)); some (reply "ok" ss')
  | ["release", p] => do
    let ss' ← applyAct ss (.release (← parseNat? p)); some (reply "ok" ss')
  | ["stop"] => do let ss' ← applyAct ss .stop; some (reply "ok" ss')
  | ["stop", "ctx"] => do let ss' ← applyAct ss .stop; some (reply "ok" ss')
  | ["graceful"] => do let ss' ← applyAct ss .graceful; some (reply "ok" ss')
  | ["top", "stop"] => do let ss' ← applyAct ss (.top .stop); some (reply "ok" ss')
  | ["top", "none"] => do let ss' ← applyAct ss (.top .none); some (reply "ok" ss')
  | ["top", "fb"] =>
    match s.pending with
    | p :: _ => do let ss' ← applyAct ss (.top (.feedback p)); some (reply "ok" ss')
    | [] => none
  | ["top", "add", p, c, b] => do
    let ss' ← applyAct ss (.top (.add (← parseNat? p) (← parseNat? c) ((← parseNat? b) != 0)))
    some (reply "ok" ss')
  | ["top", "remove", p] => do
    let ss' ← applyAct ss (.top (.remove (← parseNat? p))); some (reply "ok" ss')
  | ["calc"] => do
    let ss' ← applyAct ss .calc
    let status := match ss'.st.pc with
      | .prio _ _ => "proceed" | .waitFb => "wait" | .drain e => errStatus e | pc => showPc pc
    some (reply status ss')
  | ["fb1"] =>
    if s.pc = .waitFb then
      match nextAct s with
      | some a => do let ss' ← applyAct ss a; some (reply "ok" ss')
      | none => some (reply "blocked" ss)
    else none
  | ["prio"] =>
    match s.pc with
    | .prio _ _ =>
      let st' := drivePrio ss.div fuel s
      some (reply s!"n={st'.processed - s.processed}" { ss with st := st' })
    | _ => none
  | ["recalc"] => do
    let ss' ← applyAct ss .recalc
    let status := match ss'.st.pc with
      | .prio _ (_ :: _) => "proceed" | .prio _ [] => (if ss'.st.prios.isEmpty then "proceed" else "stop")
      | .drain e => errStatus e | pc => showPc pc
    some (reply status ss')
  | ["wct"] =>
    if s.pc = .calc then
      let st' := driveWct ss.div fuel s
      let status := match st'.pc with
        | .prio _ _ => "ok"
        | .drain e => errStatus e
        | .waitFb => "blocked"
        | pc => showPc pc
      some (reply status { ss with st := st' })
    else none
  | ["base"] =>
    if s.pc = .calc then
      let st' := drive ss.div fuel s
      let status := match st'.pc with
        | .prio 2 [] => s!"n={st'.processed}"
        | .drain e => s!"n={st'.processed} {errStatus e}"
        | .waitFb => "blocked"
        | pc => showPc pc
      some (reply status { ss with st := st' })
    else none
  | ["drained?"] => some (reply (showBool (allDrained s.inputs)) ss)
  | ["glf", n] => do
    let n ← parseNat? n
    let ss1 ← applyAct ss .endRound
    match ss1.st.pc with
    | .limited k =>
      let st2 := consumeN ss.div (min k n) ss1.st
      match step ss.div st2 .limitedStop with
      | some st3 => some (reply "ok" { ss with st := st3 })
      | none => some (reply (showPc st2.pc) { ss with st := st2 })
    | pc => some (reply s!"exit-expected:{showPc pc}" ss1)
  | ["wza"] =>
    -- after `base()`: the loop-exit test, then `waitZeroActual`, then the deferred closes
    let s1 := match s.pc with
      | .prio 2 [] => (step ss.div s .endRound).getD s
      | _ => s
    match s1.pc with
    | .drain _ =>
      let s2 := if s1.cfg.v1 ∧ s1.stopped then (step ss.div s1 .stopSeen).getD s1
                else
                  let s2 := consumeN ss.div s1.pending.length s1
                  (step ss.div s2 .exit).getD s2
      let status := match s2.pc with
        | .done e => s!"done {errStatus e}"
        | pc => s!"blocked:{showPc pc}"
      some (reply status { ss with st := s2 })
    | pc => some (reply s!"not-exiting:{showPc pc}" { ss with st := s1 })
  | _ => none

end DriverSched
end Cqos
