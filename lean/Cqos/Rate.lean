/-
  Model of `v2/limit/rate.go` (`Rate.IsValid`, `Recalculate`, `Optimize`, `Flatten`)
  and of `calcInterruptInterval` (`v2/join/assist.go`, `v2/join/unite/assist.go`,
  `join/assist.go`).

  `time.Duration` is `int64`, `Quantity` is `uint64`.  The model uses `Int`/`Nat` and the
  64-bit ranges appear as explicit hypotheses of the theorems (`InRange`); the only
  place where the Go code itself tests a range (`quotient.IsUint64()`) is modelled.
-/
namespace Cqos

inductive RateErr
  | intervalNegative | intervalZero | quantityZero | minimumNegative
  | convertedIntervalZero | quantityUnrepresentable
  deriving DecidableEq, Repr

structure LRate where
  interval : Int
  quantity : Nat
  deriving DecidableEq, Repr

namespace LRate

def isValid (r : LRate) : Option RateErr :=
  if r.interval < 0 then some .intervalNegative
  else if r.interval = 0 then some .intervalZero
  else if r.quantity = 0 then some .quantityZero
  else none

/-- `recalculateQuantity`: exact `big.Int` product and quotient, then `IsUint64` -/
def recalcQuantity (q : Nat) (minimum interval : Int) : Except RateErr Nat :=
  let quo := (q * minimum.toNat) / interval.toNat
  if quo < 2 ^ 64 then .ok quo else .error .quantityUnrepresentable

/-- `Rate.Recalculate` as it stands in the tree (after the `fix:` commit for defect D1:
    the first branch also covers `interval == minimum` when the interval is positive). -/
def recalculate (r : LRate) (minimum : Int) : Except RateErr LRate :=
  match r.isValid with
  | some e => .error e
  | none =>
    if minimum < 0 then .error .minimumNegative
    else
      let interval : Int := (r.interval.toNat / r.quantity : Nat)
      if interval > minimum ∨ (interval ≠ 0 ∧ interval = minimum) then
        .ok ⟨interval, 1⟩
      else if minimum = 0 then .error .convertedIntervalZero
      else
        match recalcQuantity r.quantity minimum r.interval with
        | .error e => .error e
        | .ok q => .ok ⟨minimum, q⟩

/-- `Rate.Recalculate` as it was BEFORE the repair of defect D1 (kept only for the
    counterexample theorem `c13_unfixed_counterexample`). -/
def recalculateUnfixed (r : LRate) (minimum : Int) : Except RateErr LRate :=
  match r.isValid with
  | some e => .error e
  | none =>
    if minimum < 0 then .error .minimumNegative
    else
      let interval : Int := (r.interval.toNat / r.quantity : Nat)
      if interval > minimum then .ok ⟨interval, 1⟩
      else if minimum = 0 then .error .convertedIntervalZero
      else
        match recalcQuantity r.quantity minimum r.interval with
        | .error e => .error e
        | .ok q => .ok ⟨minimum, q⟩

/-- `OptimizationInterval = 10 * time.Millisecond` -/
def optimizationInterval : Int := 10000000

def optimize (r : LRate) : Except RateErr LRate := recalculate r optimizationInterval
def flatten (r : LRate) : Except RateErr LRate := recalculate r 0

end LRate

/-! ### calcInterruptInterval -/

inductive IntervalErr
  | inaccuracyZero | inaccuracyTooBig | timeoutTooSmall
  deriving DecidableEq, Repr

/-- v2 `calcInterruptInterval` (join and unite share the text). `0` = untimeouted. -/
def calcInterruptIntervalV2 (timeout : Int) (inaccuracy : Nat) : Except IntervalErr Int :=
  if timeout ≤ 0 then .ok 0
  else if inaccuracy = 0 then .error .inaccuracyZero
  else
    let divider := 100 / inaccuracy
    if divider = 0 then .error .inaccuracyTooBig
    else
      let interval := timeout / (divider : Int)
      if interval = 0 then .error .timeoutTooSmall else .ok interval

/-- `general.ReliablyMeasurableDuration = 10ms` -/
def reliablyMeasurable : Int := 10000000

/-- v1 `calcInterruptIntervalNonPositiveAllowed` -/
def calcInterruptIntervalV1 (timeout : Int) (inaccuracy : Nat) : Except IntervalErr Int :=
  if timeout ≤ 0 then .ok 0
  else if inaccuracy = 0 then .error .inaccuracyZero
  else
    let divider := 100 / inaccuracy
    if divider = 0 then .error .inaccuracyTooBig
    else
      let interval := timeout / (divider : Int)
      if interval < reliablyMeasurable then .error .timeoutTooSmall else .ok interval

end Cqos
