/-
  Go `map[uint]uint` as an association list.

  Key *presence* is observable in the Go code (`IsDistributionFilled`, `resetTactic`,
  `isZeroActual`, `clearActual` range over the keys that are present), so `add k 0`
  creates the key exactly like `m[k] += 0` does in Go.

  All operations act on the FIRST occurrence of a key; every `Dist` built from `[]`
  with `add`/`set` is duplicate free, but no lemma below needs that.
-/
namespace Cqos

abbrev Dist := List (Nat × Nat)

namespace Dist

def get : Dist → Nat → Nat
  | [], _ => 0
  | (k', v) :: r, k => if k' = k then v else get r k

def has : Dist → Nat → Bool
  | [], _ => false
  | (k', _) :: r, k => if k' = k then true else has r k

/-- `m[k] += v` (creates the key). -/
def add : Dist → Nat → Nat → Dist
  | [], k, v => [(k, v)]
  | (k', v') :: r, k, v => if k' = k then (k', v' + v) :: r else (k', v') :: add r k v

/-- `m[k] = v` (creates the key). -/
def set : Dist → Nat → Nat → Dist
  | [], k, v => [(k, v)]
  | (k', v') :: r, k, v => if k' = k then (k', v) :: r else (k', v') :: set r k v

/-- `delete(m, k)`. -/
def erase : Dist → Nat → Dist
  | [], _ => []
  | (k', v') :: r, k => if k' = k then r else (k', v') :: erase r k

def total : Dist → Nat
  | [] => 0
  | (_, v) :: r => v + total r

/-- `common.IsDistributionFilled`: every PRESENT key has a non-zero value. -/
def filled : Dist → Bool
  | [] => true
  | (_, v) :: r => v != 0 && filled r

/-- `resetTactic`: every present key is set to zero (keys stay). -/
def zeroAll : Dist → Dist
  | [] => []
  | (k, _) :: r => (k, 0) :: zeroAll r

/-- `isZeroActual`. -/
def allZero : Dist → Bool
  | [] => true
  | (_, v) :: r => v == 0 && allZero r

def keys (m : Dist) : List Nat := m.map (·.1)

/-- insertion sort by key, used only for canonical printing -/
def insertSorted (kv : Nat × Nat) : Dist → Dist
  | [] => [kv]
  | x :: r => if kv.1 ≤ x.1 then kv :: x :: r else x :: insertSorted kv r

def sorted (m : Dist) : Dist := m.foldr insertSorted []

/-! ### basic lemmas -/

@[simp] theorem get_nil (k : Nat) : get [] k = 0 := rfl
@[simp] theorem total_nil : total [] = 0 := rfl

@[simp] theorem total_add (m : Dist) (k v : Nat) : total (add m k v) = total m + v := by
  induction m with
  | nil => simp [add, total]
  | cons x r ih =>
    obtain ⟨k', v'⟩ := x
    simp only [add]
    split
    · simp [total]; omega
    · simp [total, ih]; omega

theorem get_add (m : Dist) (k v k2 : Nat) :
    get (add m k v) k2 = get m k2 + (if k = k2 then v else 0) := by
  induction m with
  | nil => simp [add, get]
  | cons x r ih =>
    obtain ⟨k', v'⟩ := x
    simp only [add]
    by_cases h : k' = k
    · subst h
      by_cases h2 : k' = k2
      · simp [get, h2]
      · simp [get, h2]
    · simp only [h, if_false, get]
      by_cases h2 : k' = k2
      · subst h2
        have : ¬ k = k' := fun e => h e.symm
        simp [this]
      · simp [h2, ih]

@[simp] theorem get_add_same (m : Dist) (k v : Nat) : get (add m k v) k = get m k + v := by
  simp [get_add]

theorem get_add_other (m : Dist) (k v k2 : Nat) (h : k ≠ k2) : get (add m k v) k2 = get m k2 := by
  simp [get_add, h]

theorem get_set (m : Dist) (k v k2 : Nat) :
    get (set m k v) k2 = if k = k2 then v else get m k2 := by
  induction m with
  | nil => simp [set, get]
  | cons x r ih =>
    obtain ⟨k', v'⟩ := x
    simp only [set]
    by_cases h : k' = k
    · subst h
      by_cases h2 : k' = k2 <;> simp [get, h2]
    · simp only [h, if_false, get]
      by_cases h2 : k' = k2
      · subst h2
        have : ¬ k = k' := fun e => h e.symm
        simp [this]
      · simp [h2, ih]

theorem get_le_total (m : Dist) (k : Nat) : get m k ≤ total m := by
  induction m with
  | nil => simp
  | cons x r ih =>
    obtain ⟨k', v'⟩ := x
    simp only [get, total]
    split <;> omega

@[simp] theorem total_zeroAll (m : Dist) : total (zeroAll m) = 0 := by
  induction m with
  | nil => rfl
  | cons x r ih => obtain ⟨k, v⟩ := x; simp [zeroAll, total, ih]

@[simp] theorem get_zeroAll (m : Dist) (k : Nat) : get (zeroAll m) k = 0 := by
  induction m with
  | nil => rfl
  | cons x r ih => obtain ⟨k', v⟩ := x; simp [zeroAll, get, ih]

theorem total_set (m : Dist) (k v : Nat) : total (set m k v) + get m k = total m + v := by
  induction m with
  | nil => simp [set, total]
  | cons x r ih =>
    obtain ⟨k', v'⟩ := x
    simp only [set, get]
    split
    · simp [total]; omega
    · simp [total]; omega

theorem total_erase (m : Dist) (k : Nat) : total (erase m k) + get m k = total m := by
  induction m with
  | nil => simp [erase]
  | cons x r ih =>
    obtain ⟨k', v'⟩ := x
    simp only [erase, get]
    split
    · simp [total]; omega
    · simp [total]; omega

theorem allZero_iff_total (m : Dist) : allZero m = true ↔ total m = 0 := by
  induction m with
  | nil => simp [allZero]
  | cons x r ih =>
    obtain ⟨k, v⟩ := x
    simp [allZero, total, ih]

end Dist
end Cqos
