import Cqos.Facts.Defs
/-
  Expectations about the regenerated fact tables (Cqos/Facts/Generated.lean is rewritten from
  /repo's working tree on every check run).  Every theorem is a statement about the finite
  generated table, decided by evaluation in the kernel (`decide`): if the structure it speaks of
  changes, this module no longer compiles — a broken proof obligation of the property it
  belongs to.  One module per property, so that a structural change concerns only the
  properties that depend on that structure.
-/
namespace Cqos.Facts

def hasStopCases (cases : List (String × Bool)) : Bool :=
  cases.contains ("<-dsc.breaker.IsBreaked()", true) && cases.contains ("<-dsc.opts.Ctx.Done()", true)

/-- every `select` of v1 priority.Discipline and v1 join.Discipline has both stop cases, each
    returning — except the two that cannot block: the graceful test (`default`) and the
    `isStopped` test introduced by the repair of D3 (also `default`) -/
theorem c16_selects_offer_stop :
    ((selects.filter (fun r => (r.1 == "priority" && r.2.1 == "Discipline") || (r.1 == "join" && r.2.1 == "Discipline"))).all
      (fun r => hasStopCases r.2.2.2 || r.2.2.2.contains ("default", false))) = true := by
  decide

end Cqos.Facts
