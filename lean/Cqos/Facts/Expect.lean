import Cqos.Facts.C08
import Cqos.Facts.C10
import Cqos.Facts.C16
import Cqos.Facts.C17
import Cqos.Facts.C19
import Cqos.Facts.C20
