import Cqos.Facts.Generated
/-
  Expectations about the regenerated fact tables (Cqos/Facts/Generated.lean is rewritten from
  /repo's working tree on every check run).  Every theorem below is a statement about the
  finite generated table, decided by evaluation in the kernel (`decide`): if the code's
  goroutine structure, defer order, select cases or field-access discipline changes, this
  module no longer compiles — a broken proof obligation of C19 / C20 (and C07's closing order,
  C16's "every blocking select offers the stop cases").
-/
namespace Cqos.Facts

/-! ### C19: goroutines -/

/-- exactly one `go main` per constructor, `HandlersQuantity` × `go handler` (inside a loop)
    in the simplified disciplines, and nothing else -/
def expectedSpawns : List (String × String × String × String × Bool) := [
  ("v2/priority", "", "New", "dsc.main", false),
  ("v2/priority/simple", "Discipline", "main", "dsc.handler", true),
  ("priority", "", "New", "dsc.main", false),
  ("priority", "", "NewSimple", "smpl.main", false),
  ("priority", "Simple", "main", "smpl.handler", true),
  ("priority", "Simple", "gracefulStop", "func() { defer close(done) smpl.priority.GracefulStop() }", false),
  ("v2/join", "", "New", "dsc.main", false),
  ("v2/join/unite", "", "New", "dsc.main", false),
  ("join", "", "New", "dsc.main", false),
  ("v2/limit", "", "New", "dsc.main", false)
]

theorem c19_spawn_table : spawns = expectedSpawns := by decide

def defersOf (pkg typ fn : String) : List String :=
  match defers.find? (fun r => r.1 == pkg && r.2.1 == typ && r.2.2.1 == fn) with
  | some r => r.2.2.2
  | none => []

/-- the deferred calls of every `main`, in source order (they run in reverse): the
    termination signal (closing `err` / `output`, `breaker.Complete`) is registered FIRST, so
    it is the LAST thing a main goroutine does; nothing is closed before `loop` returns;
    tickers are stopped; v1 Simple waits for its handlers (`wg.Wait`) before signalling and
    stops the inner discipline before cancelling the handlers' context. -/
theorem c19_main_defers :
    defersOf "v2/priority" "Discipline" "main" = ["close(dsc.err)", "close(dsc.output)", "close(dsc.feedback)", "dsc.interrupter.Stop()"] ∧
    defersOf "v2/priority" "Discipline" "loop" = ["dsc.waitZeroActual()"] ∧
    defersOf "priority" "Discipline" "main" = ["dsc.breaker.Complete()", "dsc.graceful.Complete()", "close(dsc.err)", "close(dsc.inputAdds)", "close(dsc.inputRmvs)", "dsc.interrupter.Stop()"] ∧
    defersOf "priority" "Discipline" "loop" = ["dsc.waitZeroActual()"] ∧
    defersOf "priority" "Simple" "main" = ["smpl.breaker.Complete()", "smpl.graceful.Complete()", "close(smpl.err)", "close(smpl.output)", "close(smpl.feedback)", "smpl.wg.Wait()", "cancel()", "smpl.priority.Stop()"] ∧
    defersOf "priority" "Simple" "handler" = ["smpl.wg.Done()"] ∧
    defersOf "v2/join" "Discipline" "main" = ["close(dsc.output)", "close(dsc.release)"] ∧
    defersOf "v2/join" "Discipline" "loop" = ["dsc.pass()", "ticker.Stop()"] ∧
    defersOf "v2/join" "Discipline" "loopUntimeouted" = ["dsc.pass()"] ∧
    defersOf "v2/join/unite" "Discipline" "main" = ["close(dsc.output)", "close(dsc.release)"] ∧
    defersOf "v2/join/unite" "Discipline" "loop" = ["dsc.pass()", "ticker.Stop()"] ∧
    defersOf "v2/join/unite" "Discipline" "loopUntimeouted" = ["dsc.pass()"] ∧
    defersOf "join" "Discipline" "main" = ["dsc.breaker.Complete()", "close(dsc.output)"] ∧
    defersOf "join" "Discipline" "loop" = ["dsc.pass()", "ticker.Stop()"] ∧
    defersOf "join" "Discipline" "loopUntimeouted" = ["dsc.pass()"] ∧
    defersOf "v2/limit" "Discipline" "main" = ["close(dsc.output)"] := by decide


/-- what a goroutine still executes after one of its deferred calls `sig` has run: deferred
    calls run in reverse registration order, after the body has returned -/
def afterSignal (sig : String) (ds : List String) : List String :=
  (ds.reverse.dropWhile (fun d => !(d == sig))).drop 1

/-- general fact: a deferred call registered first (and only once) is the last thing the
    goroutine ever executes -/
theorem afterSignal_head (sig : String) (rest : List String) (h : sig ∉ rest) :
    afterSignal sig (sig :: rest) = [] := by
  unfold afterSignal
  rw [List.reverse_cons]
  have : List.dropWhile (fun d => !(d == sig)) (rest.reverse ++ [sig]) = [sig] := by
    have hr : ∀ d ∈ rest.reverse, (fun d => !(d == sig)) d = true := by
      intro d hd
      have : d ∈ rest := List.mem_reverse.mp hd
      have hne : d ≠ sig := fun e => h (e ▸ this)
      simp [hne]
    generalize rest.reverse = l at hr
    induction l with
    | nil => simp [List.dropWhile]
    | cons a l ih =>
      have ha := hr a (List.mem_cons_self ..)
      simp only [List.cons_append, List.dropWhile_cons, ha, if_true]
      exact ih (fun d hd => hr d (List.mem_cons_of_mem _ hd))
  rw [this]; rfl

/-- the termination signals the API waits on (`Err()`/`Output()` closed, `Stop` =
    `breaker.Break(); … <-breaker.IsCompleted()`): after the signal the main goroutine of
    every discipline executes nothing at all -/
theorem c19_nothing_after_signal :
    afterSignal "close(dsc.err)" (defersOf "v2/priority" "Discipline" "main") = [] ∧
    afterSignal "dsc.breaker.Complete()" (defersOf "priority" "Discipline" "main") = [] ∧
    afterSignal "smpl.breaker.Complete()" (defersOf "priority" "Simple" "main") = [] ∧
    afterSignal "close(dsc.output)" (defersOf "v2/join" "Discipline" "main") = [] ∧
    afterSignal "close(dsc.output)" (defersOf "v2/join/unite" "Discipline" "main") = [] ∧
    afterSignal "dsc.breaker.Complete()" (defersOf "join" "Discipline" "main") = [] ∧
    afterSignal "close(dsc.output)" (defersOf "v2/limit" "Discipline" "main") = [] ∧
    -- v1 Simple: before the signal the handlers have been cancelled and waited for, and the
    -- inner discipline stopped (execution order = reverse registration order)
    (defersOf "priority" "Simple" "main").reverse.take 3 = ["smpl.priority.Stop()", "cancel()", "smpl.wg.Wait()"] := by
  decide

/-- the helper goroutine of v1 Simple.gracefulStop (repair of defect D4) signals `done` as its
    last action, and gracefulStop does not return before `done`: either the select's `<-done`
    case (the only returning case), or — after the stop cases — the inner discipline is stopped
    and `<-done` is awaited as the last statement.  So the helper never outlives main. -/
theorem c19_helper_joined :
    spawners = [("priority", "Simple", "gracefulStop",
      [("assign", "done"), ("go", "func() { defer close(done) smpl.priority.GracefulStop() }"), ("select", ""),
       ("call", "smpl.priority.Stop()"), ("call", "<-done")])] ∧
    selects.contains ("priority", "Simple", "gracefulStop",
      [("<-done", true), ("<-smpl.breaker.IsBreaked()", false), ("<-smpl.opts.Ctx.Done()", false)]) = true := by
  decide

/-- the handler goroutines end when the discipline does: v2's handler is one `range` over the
    discipline's output (closed by main), v1's handler returns on `ctx.Done()` in each of its
    two selects (main cancels the context before `wg.Wait`) -/
theorem c19_handlers_exit :
    ranges.contains ("v2/priority/simple", "Discipline", "handler", "dsc.priority.Output()") = true ∧
    ((selects.filter (fun r => r.1 == "priority" && r.2.1 == "Simple" && r.2.2.1 == "handler")).all
      (fun r => r.2.2.2.contains ("<-ctx.Done()", true))) = true ∧
    (selects.filter (fun r => r.1 == "priority" && r.2.1 == "Simple" && r.2.2.1 == "handler")).length = 2 := by
  decide

/-! ### C16: every select of the v1 disciplines that can block offers both stop cases -/

def hasStopCases (cases : List (String × Bool)) : Bool :=
  cases.contains ("<-dsc.breaker.IsBreaked()", true) && cases.contains ("<-dsc.opts.Ctx.Done()", true)

/-- every `select` of v1 priority.Discipline and v1 join.Discipline has both stop cases, each
    returning — except the two that cannot block: the graceful test (`default`) and the
    `isStopped` test introduced by the repair of D3 (also `default`) -/
theorem c16_selects_offer_stop :
    ((selects.filter (fun r => (r.1 == "priority" && r.2.1 == "Discipline") || (r.1 == "join" && r.2.1 == "Discipline"))).all
      (fun r => hasStopCases r.2.2.2 || r.2.2.2.contains ("default", false))) = true := by
  decide


/-! ### C10: the timeout is driven by one ticker per discipline -/

def loopSelects (pkg : String) : List (List (String × Bool)) :=
  (selects.filter (fun r => r.1 == pkg && r.2.1 == "Discipline" && r.2.2.1 == "loop")).map (·.2.2.2)

/-- the timed loop of every batching discipline selects on ONE ticker (`<-ticker.C`, a case
    that does not return) that is created outside the loop — it is stopped by a deferred call
    of `loop` — so input arriving more often than the ticker period cannot keep the timeout
    test from running (a fresh `time.After` per iteration could) -/
theorem c10_one_ticker :
    (loopSelects "v2/join").all (fun cs => cs.contains ("<-ticker.C", false)) = true ∧ (loopSelects "v2/join").length = 1 ∧
    (loopSelects "v2/join/unite").all (fun cs => cs.contains ("<-ticker.C", false)) = true ∧ (loopSelects "v2/join/unite").length = 1 ∧
    (loopSelects "join").all (fun cs => cs.contains ("<-ticker.C", false)) = true ∧ (loopSelects "join").length = 1 ∧
    (defersOf "v2/join" "Discipline" "loop").contains "ticker.Stop()" = true ∧
    (defersOf "v2/join/unite" "Discipline" "loop").contains "ticker.Stop()" = true ∧
    (defersOf "join" "Discipline" "loop").contains "ticker.Stop()" = true := by decide

/-! ### C20: confinement of the scheduler state -/

abbrev MethodRow := String × Bool × List String × List String × List String

def methodsOf (pkg typ : String) : List MethodRow :=
  (methods.filter (fun r => r.1 == pkg && r.2.1 == typ)).map (fun r => r.2.2)

def addNew (acc : List String) : List String → List String
  | [] => acc
  | x :: xs => if acc.contains x then addNew acc xs else addNew (acc ++ [x]) xs

/-- methods reachable from `roots` through receiver-method calls (fuel-bounded closure) -/
def reach (ms : List MethodRow) : Nat → List String → List String
  | 0, acc => acc
  | n + 1, acc =>
    reach ms n (addNew acc ((ms.filter (fun m => acc.contains m.1)).flatMap (fun m => m.2.2.2.2)))

def writtenBy (ms : List MethodRow) (fs : List String) : List String :=
  addNew [] ((ms.filter (fun m => fs.contains m.1)).flatMap (fun m => m.2.2.1))

def accessedBy (ms : List MethodRow) (fs : List String) : List String :=
  addNew [] ((ms.filter (fun m => fs.contains m.1)).flatMap (fun m => m.2.2.1 ++ m.2.2.2.1))

/-- exported methods of the type (the API other goroutines call) -/
def apiRoots (ms : List MethodRow) : List String := (ms.filter (fun m => m.2.1)).map (·.1)

/-- fields written by anything reachable from `main` are neither read nor written by anything
    reachable from an exported method or from the extra goroutine roots (handlers) -/
def confined (pkg typ : String) (extraRoots : List String) : Bool :=
  let ms := methodsOf pkg typ
  let mainSet := reach ms 12 ["main"]
  let apiSet := reach ms 12 (apiRoots ms ++ extraRoots)
  let w := writtenBy ms mainSet
  let a := accessedBy ms apiSet
  w.all (fun f => !a.contains f)

theorem c20_confined :
    confined "v2/priority" "Discipline" [] = true ∧
    confined "priority" "Discipline" [] = true ∧
    confined "priority" "Simple" ["handler"] = true ∧
    confined "v2/priority/simple" "Discipline" ["handler"] = true ∧
    confined "v2/join" "Discipline" [] = true ∧
    confined "v2/join/unite" "Discipline" [] = true ∧
    confined "join" "Discipline" [] = true ∧
    confined "v2/limit" "Discipline" [] = true := by decide

/-- non-vacuity of the confinement check: the main goroutine does write scheduler state, and
    the API touches only channels -/
theorem c20_main_writes :
    writtenBy (methodsOf "v2/priority" "Discipline") (reach (methodsOf "v2/priority" "Discipline") 12 ["main"]) =
      ["inputs", "actual", "tactic", "uncrowded", "useful"] ∧
    accessedBy (methodsOf "v2/priority" "Discipline") (reach (methodsOf "v2/priority" "Discipline") 12 (apiRoots (methodsOf "v2/priority" "Discipline"))) =
      ["output", "feedback", "err"] := by decide

/-- every constructor starts its goroutine last: after the `go` statement only `return`
    follows, so every constructor write happens-before the goroutine starts -/
def afterGo : List (String × String) → Option (List (String × String))
  | [] => none
  | (k, _) :: rest => if k == "go" then some rest else afterGo rest

def ctorOK (kinds : List (String × String)) : Bool :=
  match afterGo kinds with
  | none => true               -- no goroutine started here (v2 simple: started in main)
  | some rest => rest.all (fun k => k.1 == "return")

theorem c20_ctors : (ctors.all (fun r => ctorOK r.2.2)) = true := by decide

end Cqos.Facts
