import Cqos.Facts.Generated
/-
  Expectations about the regenerated fact tables (Cqos/Facts/Generated.lean is rewritten from
  /repo's working tree on every check run).  Every theorem is a statement about the finite
  generated table, decided by evaluation in the kernel (`decide`): if the structure it speaks of
  changes, this module no longer compiles — a broken proof obligation of the property it
  belongs to.  One module per property, so that a structural change concerns only the
  properties that depend on that structure.
-/
namespace Cqos.Facts

def defersOf (pkg typ fn : String) : List String :=
  match defers.find? (fun r => r.1 == pkg && r.2.1 == typ && r.2.2.1 == fn) with
  | some r => r.2.2.2
  | none => []

/-- what a goroutine still executes after one of its deferred calls `sig` has run: deferred
    calls run in reverse registration order, after the body has returned -/
def afterSignal (sig : String) (ds : List String) : List String :=
  (ds.reverse.dropWhile (fun d => !(d == sig))).drop 1

/-- general fact: a deferred call registered first (and only once) is the last thing the
    goroutine ever executes -/
theorem afterSignal_head (sig : String) (rest : List String) (h : sig ∉ rest) :
    afterSignal sig (sig :: rest) = [] := by
  unfold afterSignal
  rw [List.reverse_cons]
  have : List.dropWhile (fun d => !(d == sig)) (rest.reverse ++ [sig]) = [sig] := by
    have hr : ∀ d ∈ rest.reverse, (fun d => !(d == sig)) d = true := by
      intro d hd
      have : d ∈ rest := List.mem_reverse.mp hd
      have hne : d ≠ sig := fun e => h (e ▸ this)
      simp [hne]
    generalize rest.reverse = l at hr
    induction l with
    | nil => simp [List.dropWhile]
    | cons a l ih =>
      have ha := hr a (List.mem_cons_self ..)
      simp only [List.cons_append, List.dropWhile_cons, ha, if_true]
      exact ih (fun d hd => hr d (List.mem_cons_of_mem _ hd))
  rw [this]; rfl

end Cqos.Facts
