import Cqos.Facts.Defs
/-
  Expectations about the regenerated fact tables (Cqos/Facts/Generated.lean is rewritten from
  /repo's working tree on every check run).  Every theorem is a statement about the finite
  generated table, decided by evaluation in the kernel (`decide`): if the structure it speaks of
  changes, this module no longer compiles — a broken proof obligation of the property it
  belongs to.  One module per property, so that a structural change concerns only the
  properties that depend on that structure.
-/
namespace Cqos.Facts

/-- exactly one `go main` per constructor, `HandlersQuantity` × `go handler` (inside a loop)
    in the simplified disciplines, and nothing else -/
def expectedSpawns : List (String × String × String × String × Bool) := [
  ("v2/priority", "", "New", "dsc.main", false),
  ("v2/priority/simple", "Discipline", "main", "dsc.handler", true),
  ("priority", "", "New", "dsc.main", false),
  ("priority", "", "NewSimple", "smpl.main", false),
  ("priority", "Simple", "main", "smpl.handler", true),
  ("priority", "Simple", "gracefulStop", "func() { defer close(done) smpl.priority.GracefulStop() }", false),
  ("v2/join", "", "New", "dsc.main", false),
  ("v2/join/unite", "", "New", "dsc.main", false),
  ("join", "", "New", "dsc.main", false),
  ("v2/limit", "", "New", "dsc.main", false)
]

theorem c19_spawn_table : spawns = expectedSpawns := by decide

/-- the deferred calls of every `main`, in source order (they run in reverse): the
    termination signal (closing `err` / `output`, `breaker.Complete`) is registered FIRST, so
    it is the LAST thing a main goroutine does; nothing is closed before `loop` returns;
    tickers are stopped; v1 Simple waits for its handlers (`wg.Wait`) before signalling and
    stops the inner discipline before cancelling the handlers' context. -/
theorem c19_main_defers :
    defersOf "v2/priority" "Discipline" "main" = ["close(dsc.err)", "close(dsc.output)", "close(dsc.feedback)", "dsc.interrupter.Stop()"] ∧
    defersOf "v2/priority" "Discipline" "loop" = ["dsc.waitZeroActual()"] ∧
    defersOf "priority" "Discipline" "main" = ["dsc.breaker.Complete()", "dsc.graceful.Complete()", "close(dsc.err)", "close(dsc.inputAdds)", "close(dsc.inputRmvs)", "dsc.interrupter.Stop()"] ∧
    defersOf "priority" "Discipline" "loop" = ["dsc.waitZeroActual()"] ∧
    defersOf "priority" "Simple" "main" = ["smpl.breaker.Complete()", "smpl.graceful.Complete()", "close(smpl.err)", "close(smpl.output)", "close(smpl.feedback)", "smpl.wg.Wait()", "cancel()", "smpl.priority.Stop()"] ∧
    defersOf "priority" "Simple" "handler" = ["smpl.wg.Done()"] ∧
    defersOf "v2/join" "Discipline" "main" = ["close(dsc.output)", "close(dsc.release)"] ∧
    defersOf "v2/join" "Discipline" "loop" = ["dsc.pass()", "ticker.Stop()"] ∧
    defersOf "v2/join" "Discipline" "loopUntimeouted" = ["dsc.pass()"] ∧
    defersOf "v2/join/unite" "Discipline" "main" = ["close(dsc.output)", "close(dsc.release)"] ∧
    defersOf "v2/join/unite" "Discipline" "loop" = ["dsc.pass()", "ticker.Stop()"] ∧
    defersOf "v2/join/unite" "Discipline" "loopUntimeouted" = ["dsc.pass()"] ∧
    defersOf "join" "Discipline" "main" = ["dsc.breaker.Complete()", "close(dsc.output)"] ∧
    defersOf "join" "Discipline" "loop" = ["dsc.pass()", "ticker.Stop()"] ∧
    defersOf "join" "Discipline" "loopUntimeouted" = ["dsc.pass()"] ∧
    defersOf "v2/limit" "Discipline" "main" = ["close(dsc.output)"] := by decide

/-- the termination signals the API waits on (`Err()`/`Output()` closed, `Stop` =
    `breaker.Break(); … <-breaker.IsCompleted()`): after the signal the main goroutine of
    every discipline executes nothing at all -/
theorem c19_nothing_after_signal :
    afterSignal "close(dsc.err)" (defersOf "v2/priority" "Discipline" "main") = [] ∧
    afterSignal "dsc.breaker.Complete()" (defersOf "priority" "Discipline" "main") = [] ∧
    afterSignal "smpl.breaker.Complete()" (defersOf "priority" "Simple" "main") = [] ∧
    afterSignal "close(dsc.output)" (defersOf "v2/join" "Discipline" "main") = [] ∧
    afterSignal "close(dsc.output)" (defersOf "v2/join/unite" "Discipline" "main") = [] ∧
    afterSignal "dsc.breaker.Complete()" (defersOf "join" "Discipline" "main") = [] ∧
    afterSignal "close(dsc.output)" (defersOf "v2/limit" "Discipline" "main") = [] ∧
    -- v1 Simple: before the signal the handlers have been cancelled and waited for, and the
    -- inner discipline stopped (execution order = reverse registration order)
    (defersOf "priority" "Simple" "main").reverse.take 3 = ["smpl.priority.Stop()", "cancel()", "smpl.wg.Wait()"] := by
  decide

/-- the helper goroutine of v1 Simple.gracefulStop (repair of defect D4) signals `done` as its
    last action, and gracefulStop does not return before `done`: either the select's `<-done`
    case (the only returning case), or — after the stop cases — the inner discipline is stopped
    and `<-done` is awaited as the last statement.  So the helper never outlives main. -/
theorem c19_helper_joined :
    spawners = [("priority", "Simple", "gracefulStop",
      [("assign", "done"), ("go", "func() { defer close(done) smpl.priority.GracefulStop() }"), ("select", ""),
       ("call", "smpl.priority.Stop()"), ("call", "<-done")])] ∧
    selects.contains ("priority", "Simple", "gracefulStop",
      [("<-done", true), ("<-smpl.breaker.IsBreaked()", false), ("<-smpl.opts.Ctx.Done()", false)]) = true := by
  decide

/-- the handler goroutines end when the discipline does: v2's handler is one `range` over the
    discipline's output (closed by main), v1's handler returns on `ctx.Done()` in each of its
    two selects (main cancels the context before `wg.Wait`) -/
theorem c19_handlers_exit :
    ranges.contains ("v2/priority/simple", "Discipline", "handler", "dsc.priority.Output()") = true ∧
    ((selects.filter (fun r => r.1 == "priority" && r.2.1 == "Simple" && r.2.2.1 == "handler")).all
      (fun r => r.2.2.2.contains ("<-ctx.Done()", true))) = true ∧
    (selects.filter (fun r => r.1 == "priority" && r.2.1 == "Simple" && r.2.2.1 == "handler")).length = 2 := by
  decide

/-- C19 / C07: the error channels have room for the one value `main` writes before it
    returns, so the write cannot block a terminating goroutine -/
theorem c19_err_buffered :
    chanmakes.contains ("v2/priority", "New", "err", "1") = true ∧
    chanmakes.contains ("priority", "New", "err", "1") = true ∧
    chanmakes.contains ("priority", "NewSimple", "err", "1") = true := by decide

end Cqos.Facts
