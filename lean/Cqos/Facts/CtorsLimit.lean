import Cqos.Facts.Defs
/-
  Constructor skeletons: the top-level statements of every `New*` (kind and target), regenerated
  from /repo on every run.  What the machines assume about creation — the Inputs map is read
  (v1 `updateInputs`, v2 `prepare`) before the constructor returns, `passAt` is initialised at
  creation (`resetPassAt`), the rate is used as given, the goroutine is started last — is pinned
  here.
-/
namespace Cqos.Facts

def ctorsLimitExpected : List (String × String × List (String × String)) := [
  ("v2/limit", "New", [("if", ""), ("assign", "dsc"), ("go", "dsc.main"), ("return", "")])
]

/-- limit: validation, struct (the rate is used as given), goroutine last -/
theorem ctorsLimit : ctors.filter (fun r => r.1 == "v2/limit") = ctorsLimitExpected := by decide

end Cqos.Facts
