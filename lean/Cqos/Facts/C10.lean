import Cqos.Facts.Defs
/-
  Expectations about the regenerated fact tables (Cqos/Facts/Generated.lean is rewritten from
  /repo's working tree on every check run).  Every theorem is a statement about the finite
  generated table, decided by evaluation in the kernel (`decide`): if the structure it speaks of
  changes, this module no longer compiles — a broken proof obligation of the property it
  belongs to.  One module per property, so that a structural change concerns only the
  properties that depend on that structure.
-/
namespace Cqos.Facts

def loopSelects (pkg : String) : List (List (String × Bool)) :=
  (selects.filter (fun r => r.1 == pkg && r.2.1 == "Discipline" && r.2.2.1 == "loop")).map (·.2.2.2)

/-- the timed loop of every batching discipline selects on ONE ticker (`<-ticker.C`, a case
    that does not return) that is created outside the loop — it is stopped by a deferred call
    of `loop` — so input arriving more often than the ticker period cannot keep the timeout
    test from running (a fresh `time.After` per iteration could) -/
theorem c10_one_ticker :
    (loopSelects "v2/join").all (fun cs => cs.contains ("<-ticker.C", false)) = true ∧ (loopSelects "v2/join").length = 1 ∧
    (loopSelects "v2/join/unite").all (fun cs => cs.contains ("<-ticker.C", false)) = true ∧ (loopSelects "v2/join/unite").length = 1 ∧
    (loopSelects "join").all (fun cs => cs.contains ("<-ticker.C", false)) = true ∧ (loopSelects "join").length = 1 ∧
    (defersOf "v2/join" "Discipline" "loop").contains "ticker.Stop()" = true ∧
    (defersOf "v2/join/unite" "Discipline" "loop").contains "ticker.Stop()" = true ∧
    (defersOf "join" "Discipline" "loop").contains "ticker.Stop()" = true := by decide

end Cqos.Facts
