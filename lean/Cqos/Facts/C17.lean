import Cqos.Facts.Defs
/-
  Expectations about the regenerated fact tables (Cqos/Facts/Generated.lean is rewritten from
  /repo's working tree on every check run).  Every theorem is a statement about the finite
  generated table, decided by evaluation in the kernel (`decide`): if the structure it speaks of
  changes, this module no longer compiles — a broken proof obligation of the property it
  belongs to.  One module per property, so that a structural change concerns only the
  properties that depend on that structure.
-/
namespace Cqos.Facts

/-- C17: the command channels of v1 `AddInput` / `RemoveInput` are unbuffered, so the caller
    returns only when the loop-top `select` has received the command (the machine's `top add` /
    `top remove` step is the return of the call) -/
theorem c17_commands_unbuffered :
    chanmakes.contains ("priority", "New", "inputAdds", "") = true ∧
    chanmakes.contains ("priority", "New", "inputRmvs", "") = true := by decide

end Cqos.Facts
