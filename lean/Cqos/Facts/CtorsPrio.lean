import Cqos.Facts.Defs
/-
  Constructor skeletons: the top-level statements of every `New*` (kind and target), regenerated
  from /repo on every run.  What the machines assume about creation — the Inputs map is read
  (v1 `updateInputs`, v2 `prepare`) before the constructor returns, `passAt` is initialised at
  creation (`resetPassAt`), the rate is used as given, the goroutine is started last — is pinned
  here.
-/
namespace Cqos.Facts

def ctorsPrioExpected : List (String × String × List (String × String)) := [
  ("v2/priority", "New", [("if", ""), ("assign", "capacity"), ("assign", "feedbackLimit"), ("assign", "inputs"), ("if", ""), ("assign", "dsc"), ("go", "dsc.main"), ("return", "")]),
  ("v2/priority/simple", "New", [("if", ""), ("assign", "priorityOpts"), ("assign", "priority"), ("if", ""), ("assign", "dsc"), ("call", "dsc.main()"), ("return", "")]),
  ("priority", "New", [("if", ""), ("assign", "feedbackLimit"), ("assign", "dsc"), ("call", "dsc.updateInputs(opts.Inputs)"), ("go", "dsc.main"), ("return", "")]),
  ("priority", "NewSimple", [("if", ""), ("assign", "opts"), ("assign", "capacity"), ("assign", "output"), ("assign", "feedback"), ("assign", "priorityOpts"), ("assign", "priority"), ("if", ""), ("assign", "smpl"), ("go", "smpl.main"), ("return", "")])
]

/-- priority disciplines: validation, capacities, `prepare` / `updateInputs` (the caller's Inputs map is read here, before the constructor returns), struct, goroutine last -/
theorem ctorsPrio : ctors.filter (fun r => r.1 == "v2/priority" || r.1 == "v2/priority/simple" || r.1 == "priority") = ctorsPrioExpected := by decide

end Cqos.Facts
