import Cqos.Facts.Defs
/-
  Glue skeletons.  The functions listed here are executed only by the disciplines' own
  goroutines or called by the user (`main`, `loop`, `loopUntimeouted`, `transfer`, the handlers
  of the simplified disciplines, `Stop`, `GracefulStop`, `Release`, `AddInput`, `RemoveInput`):
  the steppers call the functions *inside* them one at a time and the step machines of
  Cqos/Sched.lean, Join.lean, Limit.lean, Simple.lean, SimpleV1.lean encode how these glue
  functions compose them.  The table `callseq` (regenerated from /repo on every run) holds, for
  each of them, the calls made through the receiver (with their argument text), channel
  operations, `time.*` calls and the control skeleton, in source order, with local variables
  renamed `$1, $2, …` in order of first appearance; the theorems below pin it to the
  composition the machines assume.  A change of the glue (a reordered call, another argument,
  an extra branch) breaks the obligation of the properties that rely on that composition; the
  black-box scenarios then look for a failing input.
-/
namespace Cqos.Facts

def glueJoinExpected : List (String × String × String × List String) := [
  ("v2/join", "Discipline", "Release", ["dsc.release <- struct{}{}"]),
  ("v2/join", "Discipline", "main", ["if dsc.interruptInterval == 0", "dsc.loopUntimeouted()", "return", "dsc.loop()"]),
  ("v2/join", "Discipline", "loop", ["dsc.pass()", "time.NewTicker(dsc.interruptInterval)", "for", "<-$1.C", "if dsc.isTimeouted()", "dsc.isTimeouted()", "dsc.pass()", "<-dsc.opts.Input", "if !$3", "return", "dsc.process($2)"]),
  ("v2/join", "Discipline", "loopUntimeouted", ["dsc.pass()", "for", "dsc.process($1)"]),
  ("v2/join/unite", "Discipline", "Release", ["dsc.release <- struct{}{}"]),
  ("v2/join/unite", "Discipline", "main", ["if dsc.interruptInterval == 0", "dsc.loopUntimeouted()", "return", "dsc.loop()"]),
  ("v2/join/unite", "Discipline", "loop", ["dsc.pass()", "time.NewTicker(dsc.interruptInterval)", "for", "<-$1.C", "if dsc.isTimeouted()", "dsc.isTimeouted()", "dsc.pass()", "<-dsc.opts.Input", "if !$3", "return", "dsc.process($2)"]),
  ("v2/join/unite", "Discipline", "loopUntimeouted", ["dsc.pass()", "for", "dsc.process($1)"]),
  ("join", "Discipline", "Stop", ["dsc.breaker.Break()"]),
  ("join", "Discipline", "main", ["dsc.breaker.Complete()", "if dsc.interruptInterval == 0", "dsc.loopUntimeouted()", "return", "dsc.loop()"]),
  ("join", "Discipline", "loop", ["dsc.pass()", "time.NewTicker(dsc.interruptInterval)", "for", "<-dsc.breaker.IsBreaked()", "dsc.breaker.IsBreaked()", "return", "<-dsc.opts.Ctx.Done()", "dsc.opts.Ctx.Done()", "return", "<-$1.C", "if dsc.isTimeouted()", "dsc.isTimeouted()", "dsc.pass()", "<-dsc.opts.Input", "if !$3", "return", "dsc.process($2)"]),
  ("join", "Discipline", "loopUntimeouted", ["dsc.pass()", "for", "<-dsc.breaker.IsBreaked()", "dsc.breaker.IsBreaked()", "return", "<-dsc.opts.Ctx.Done()", "dsc.opts.Ctx.Done()", "return", "<-dsc.opts.Input", "if !$2", "return", "dsc.process($1)"])
]

/-- join / unite: `main` picks `loopUntimeouted` iff the interrupt interval is zero; both loops end with the deferred `pass`; the timed loop passes on a tick only when `isTimeouted` -/
theorem glueJoin : callseq.filter (fun r => r.1 == "v2/join" || r.1 == "v2/join/unite" || r.1 == "join") = glueJoinExpected := by decide

end Cqos.Facts
