import Cqos.Facts.Defs
/-
  Glue skeletons.  The functions listed here are executed only by the disciplines' own
  goroutines or called by the user (`main`, `loop`, `loopUntimeouted`, `transfer`, the handlers
  of the simplified disciplines, `Stop`, `GracefulStop`, `Release`, `AddInput`, `RemoveInput`):
  the steppers call the functions *inside* them one at a time and the step machines of
  Cqos/Sched.lean, Join.lean, Limit.lean, Simple.lean, SimpleV1.lean encode how these glue
  functions compose them.  The table `callseq` (regenerated from /repo on every run) holds, for
  each of them, the calls made through the receiver (with their argument text), channel
  operations, `time.*` calls and the control skeleton, in source order, with local variables
  renamed `$1, $2, …` in order of first appearance; the theorems below pin it to the
  composition the machines assume.  A change of the glue (a reordered call, another argument,
  an extra branch) breaks the obligation of the properties that rely on that composition; the
  black-box scenarios then look for a failing input.
-/
namespace Cqos.Facts

def gluePrioV2Expected : List (String × String × String × List String) := [
  ("v2/priority", "Discipline", "Release", ["dsc.feedback <- $1"]),
  ("v2/priority", "Discipline", "main", ["dsc.interrupter.Stop()", "if $1 != nil", "dsc.loop()", "dsc.err <- $1"]),
  ("v2/priority", "Discipline", "loop", ["dsc.waitZeroActual()", "for", "dsc.base()", "if $2 != nil", "return", "if $1 == 0", "if dsc.isDrainedInputs()", "dsc.isDrainedInputs()", "return", "time.Sleep(defaultIdleDelay)", "dsc.getLimitedFeedback()"]),
  ("v2/priority/simple", "Discipline", "main", ["for", "dsc.handler()"]),
  ("v2/priority/simple", "Discipline", "handler", ["for", "dsc.priority.Output()", "dsc.opts.Handle($1.Item)", "dsc.priority.Release($1.Priority)"])
]

/-- v2 priority: `loop` = deferred `waitZeroActual`; repeat `base`, error exit, exit test `processed == 0 && isDrainedInputs`, `getLimitedFeedback`; simplified handler: `Handle` then `Release` -/
theorem gluePrioV2 : callseq.filter (fun r => r.1 == "v2/priority" || r.1 == "v2/priority/simple") = gluePrioV2Expected := by decide

end Cqos.Facts
