import Cqos.Facts.Defs
/-
  Constructor skeletons: the top-level statements of every `New*` (kind and target), regenerated
  from /repo on every run.  What the machines assume about creation — the Inputs map is read
  (v1 `updateInputs`, v2 `prepare`) before the constructor returns, `passAt` is initialised at
  creation (`resetPassAt`), the rate is used as given, the goroutine is started last — is pinned
  here.
-/
namespace Cqos.Facts

def ctorsJoinExpected : List (String × String × List (String × String)) := [
  ("v2/join", "New", [("if", ""), ("assign", "opts"), ("assign", "interval"), ("if", ""), ("assign", "dsc"), ("call", "dsc.resetPassAt()"), ("go", "dsc.main"), ("return", "")]),
  ("v2/join/unite", "New", [("if", ""), ("assign", "opts"), ("assign", "interval"), ("if", ""), ("assign", "dsc"), ("call", "dsc.resetPassAt()"), ("go", "dsc.main"), ("return", "")]),
  ("join", "New", [("if", ""), ("assign", "opts"), ("assign", "interval"), ("if", ""), ("assign", "dsc"), ("call", "dsc.resetPassAt()"), ("go", "dsc.main"), ("return", "")])
]

/-- join / unite: validation, interrupt interval, struct, `resetPassAt()` (the timeout runs from creation), goroutine last -/
theorem ctorsJoin : ctors.filter (fun r => r.1 == "v2/join" || r.1 == "v2/join/unite" || r.1 == "join") = ctorsJoinExpected := by decide

end Cqos.Facts
