import Cqos.Facts.Defs
/-
  Expectations about the regenerated fact tables (Cqos/Facts/Generated.lean is rewritten from
  /repo's working tree on every check run).  Every theorem is a statement about the finite
  generated table, decided by evaluation in the kernel (`decide`): if the structure it speaks of
  changes, this module no longer compiles — a broken proof obligation of the property it
  belongs to.  One module per property, so that a structural change concerns only the
  properties that depend on that structure.
-/
namespace Cqos.Facts

/-- C08: the release channels of the v2 batching disciplines are unbuffered: `Release()`
    returns only when the discipline has taken the release (the machine's `release` step) -/
theorem c08_release_unbuffered :
    chanmakes.contains ("v2/join", "New", "release", "") = true ∧
    chanmakes.contains ("v2/join/unite", "New", "release", "") = true := by decide

end Cqos.Facts
