import Cqos.Facts.Defs
/-
  Glue skeletons.  The functions listed here are executed only by the disciplines' own
  goroutines or called by the user (`main`, `loop`, `loopUntimeouted`, `transfer`, the handlers
  of the simplified disciplines, `Stop`, `GracefulStop`, `Release`, `AddInput`, `RemoveInput`):
  the steppers call the functions *inside* them one at a time and the step machines of
  Cqos/Sched.lean, Join.lean, Limit.lean, Simple.lean, SimpleV1.lean encode how these glue
  functions compose them.  The table `callseq` (regenerated from /repo on every run) holds, for
  each of them, the calls made through the receiver (with their argument text), channel
  operations, `time.*` calls and the control skeleton, in source order, with local variables
  renamed `$1, $2, …` in order of first appearance; the theorems below pin it to the
  composition the machines assume.  A change of the glue (a reordered call, another argument,
  an extra branch) breaks the obligation of the properties that rely on that composition; the
  black-box scenarios then look for a failing input.
-/
namespace Cqos.Facts

def gluePrioV1Expected : List (String × String × String × List String) := [
  ("priority", "Discipline", "Stop", ["dsc.breaker.Break()"]),
  ("priority", "Discipline", "GracefulStop", ["dsc.graceful.Break()"]),
  ("priority", "Discipline", "AddInput", ["dsc.inputAdds <- $3"]),
  ("priority", "Discipline", "RemoveInput", ["dsc.inputRmvs <- $1"]),
  ("priority", "Discipline", "main", ["dsc.breaker.Complete()", "dsc.graceful.Complete()", "dsc.interrupter.Stop()", "if $1 != nil", "dsc.loop()", "dsc.err <- $1"]),
  ("priority", "Discipline", "loop", ["dsc.waitZeroActual()", "for", "<-dsc.breaker.IsBreaked()", "dsc.breaker.IsBreaked()", "return", "<-dsc.opts.Ctx.Done()", "dsc.opts.Ctx.Done()", "return", "<-dsc.inputAdds", "dsc.addInput($1.channel, $1.priority)", "<-dsc.inputRmvs", "dsc.removeInput($2)", "<-dsc.opts.Feedback", "dsc.decreaseActual($2)", "dsc.clearActual()", "dsc.base()", "if $4 != nil", "return", "if $3 == 0", "<-dsc.graceful.IsBreaked()", "dsc.graceful.IsBreaked()", "if dsc.isDrainedInputs()", "dsc.isDrainedInputs()", "return", "time.Sleep(defaultIdleDelay)", "dsc.getLimitedFeedback()"]),
  ("priority", "Simple", "Stop", ["smpl.breaker.Break()"]),
  ("priority", "Simple", "GracefulStop", ["smpl.graceful.Break()"]),
  ("priority", "Simple", "main", ["smpl.breaker.Complete()", "smpl.graceful.Complete()", "smpl.wg.Wait()", "smpl.priority.Stop()", "for", "smpl.wg.Add(1)", "smpl.handler($1)", "<-smpl.breaker.IsBreaked()", "smpl.breaker.IsBreaked()", "<-smpl.opts.Ctx.Done()", "smpl.opts.Ctx.Done()", "<-smpl.graceful.IsBreaked()", "smpl.graceful.IsBreaked()", "smpl.gracefulStop()", "if $3 != nil", "<-smpl.priority.Err()", "smpl.priority.Err()", "smpl.err <- $3", "<-smpl.priority.Err()", "smpl.priority.Err()", "smpl.err <- $3"]),
  ("priority", "Simple", "gracefulStop", ["func{", "smpl.priority.GracefulStop()", "<-$1", "return", "<-smpl.breaker.IsBreaked()", "smpl.breaker.IsBreaked()", "<-smpl.opts.Ctx.Done()", "smpl.opts.Ctx.Done()", "smpl.priority.Stop()", "<-$1"]),
  ("priority", "Simple", "handler", ["smpl.wg.Done()", "for", "<-$1.Done()", "return", "<-smpl.output", "smpl.opts.Handle($1, $2.Item)", "<-$1.Done()", "return", "smpl.feedback <- $2.Priority"])
]

/-- v1 priority and Simple: the loop-top select, `base`, graceful exit test, `getLimitedFeedback`; Stop / GracefulStop = breaker; AddInput / RemoveInput = one send on the command channel; Simple main / handler / gracefulStop -/
theorem gluePrioV1 : callseq.filter (fun r => r.1 == "priority") = gluePrioV1Expected := by decide

end Cqos.Facts
