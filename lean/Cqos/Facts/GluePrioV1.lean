import Cqos.Facts.Defs
/-
  Glue skeletons.  The functions listed here are executed only by the disciplines' own
  goroutines or called by the user (`main`, `loop`, `loopUntimeouted`, `transfer`, the handlers
  of the simplified disciplines, `Stop`, `GracefulStop`, `Release`, `AddInput`, `RemoveInput`):
  the steppers call the functions *inside* them one at a time and the step machines of
  Cqos/Sched.lean, Join.lean, Limit.lean encode how these glue functions compose them.  The
  table `callseq` (regenerated from /repo on every run) holds, for each of them, the calls made
  through the receiver (with their argument text), channel operations, `time.*` calls and the
  control skeleton, in source order; the theorems below pin it to the composition the machines
  assume.  A change of the glue (a reordered call, another argument, an extra branch) breaks
  the obligation of the properties that rely on that composition; the black-box scenarios then
  look for a failing input.
-/
namespace Cqos.Facts

def gluePrioV1Expected : List (String × String × String × List String) := [
  ("priority", "Discipline", "Stop", ["dsc.breaker.Break()"]),
  ("priority", "Discipline", "GracefulStop", ["dsc.graceful.Break()"]),
  ("priority", "Discipline", "AddInput", ["dsc.inputAdds <- in"]),
  ("priority", "Discipline", "RemoveInput", ["dsc.inputRmvs <- priority"]),
  ("priority", "Discipline", "main", ["dsc.breaker.Complete()", "dsc.graceful.Complete()", "dsc.interrupter.Stop()", "if err != nil", "dsc.loop()", "dsc.err <- err"]),
  ("priority", "Discipline", "loop", ["dsc.waitZeroActual()", "for", "<-dsc.breaker.IsBreaked()", "dsc.breaker.IsBreaked()", "return", "<-dsc.opts.Ctx.Done()", "dsc.opts.Ctx.Done()", "return", "<-dsc.inputAdds", "dsc.addInput(add.channel, add.priority)", "<-dsc.inputRmvs", "dsc.removeInput(priority)", "<-dsc.opts.Feedback", "dsc.decreaseActual(priority)", "dsc.clearActual()", "dsc.base()", "if err != nil", "return", "if processed == 0", "<-dsc.graceful.IsBreaked()", "dsc.graceful.IsBreaked()", "if dsc.isDrainedInputs()", "dsc.isDrainedInputs()", "return", "time.Sleep(defaultIdleDelay)", "dsc.getLimitedFeedback()"]),
  ("priority", "Simple", "Stop", ["smpl.breaker.Break()"]),
  ("priority", "Simple", "GracefulStop", ["smpl.graceful.Break()"]),
  ("priority", "Simple", "main", ["smpl.breaker.Complete()", "smpl.graceful.Complete()", "smpl.wg.Wait()", "smpl.priority.Stop()", "for", "smpl.wg.Add(1)", "smpl.handler(ctx)", "<-smpl.breaker.IsBreaked()", "smpl.breaker.IsBreaked()", "<-smpl.opts.Ctx.Done()", "smpl.opts.Ctx.Done()", "<-smpl.graceful.IsBreaked()", "smpl.graceful.IsBreaked()", "smpl.gracefulStop()", "<-smpl.priority.Err()", "smpl.priority.Err()", "smpl.err <- err"]),
  ("priority", "Simple", "gracefulStop", ["func{", "smpl.priority.GracefulStop()", "<-done", "return", "<-smpl.breaker.IsBreaked()", "smpl.breaker.IsBreaked()", "<-smpl.opts.Ctx.Done()", "smpl.opts.Ctx.Done()", "smpl.priority.Stop()", "<-done"]),
  ("priority", "Simple", "handler", ["smpl.wg.Done()", "for", "<-ctx.Done()", "return", "<-smpl.output", "smpl.opts.Handle(ctx, prioritized.Item)", "<-ctx.Done()", "return", "smpl.feedback <- prioritized.Priority"])
]

/-- v1 priority and Simple: the loop-top select, `base`, graceful exit test, `getLimitedFeedback`; Stop / GracefulStop = breaker; AddInput / RemoveInput = one send on the command channel; Simple main / handler / gracefulStop -/
theorem gluePrioV1 : callseq.filter (fun r => r.1 == "priority") = gluePrioV1Expected := by decide

end Cqos.Facts
