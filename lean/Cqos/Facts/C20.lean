import Cqos.Facts.Defs
/-
  Expectations about the regenerated fact tables (Cqos/Facts/Generated.lean is rewritten from
  /repo's working tree on every check run).  Every theorem is a statement about the finite
  generated table, decided by evaluation in the kernel (`decide`): if the structure it speaks of
  changes, this module no longer compiles — a broken proof obligation of the property it
  belongs to.  One module per property, so that a structural change concerns only the
  properties that depend on that structure.
-/
namespace Cqos.Facts

abbrev MethodRow := String × Bool × List String × List String × List String

def methodsOf (pkg typ : String) : List MethodRow :=
  (methods.filter (fun r => r.1 == pkg && r.2.1 == typ)).map (fun r => r.2.2)

def addNew (acc : List String) : List String → List String
  | [] => acc
  | x :: xs => if acc.contains x then addNew acc xs else addNew (acc ++ [x]) xs

/-- methods reachable from `roots` through receiver-method calls (fuel-bounded closure) -/
def reach (ms : List MethodRow) : Nat → List String → List String
  | 0, acc => acc
  | n + 1, acc =>
    reach ms n (addNew acc ((ms.filter (fun m => acc.contains m.1)).flatMap (fun m => m.2.2.2.2)))

def writtenBy (ms : List MethodRow) (fs : List String) : List String :=
  addNew [] ((ms.filter (fun m => fs.contains m.1)).flatMap (fun m => m.2.2.1))

def accessedBy (ms : List MethodRow) (fs : List String) : List String :=
  addNew [] ((ms.filter (fun m => fs.contains m.1)).flatMap (fun m => m.2.2.1 ++ m.2.2.2.1))

/-- exported methods of the type (the API other goroutines call) -/
def apiRoots (ms : List MethodRow) : List String := (ms.filter (fun m => m.2.1)).map (·.1)

/-- fields written by anything reachable from `main` are neither read nor written by anything
    reachable from an exported method or from the extra goroutine roots (handlers) -/
def confined (pkg typ : String) (extraRoots : List String) : Bool :=
  let ms := methodsOf pkg typ
  let mainSet := reach ms 12 ["main"]
  let apiSet := reach ms 12 (apiRoots ms ++ extraRoots)
  let w := writtenBy ms mainSet
  let a := accessedBy ms apiSet
  w.all (fun f => !a.contains f)

theorem c20_confined :
    confined "v2/priority" "Discipline" [] = true ∧
    confined "priority" "Discipline" [] = true ∧
    confined "priority" "Simple" ["handler"] = true ∧
    confined "v2/priority/simple" "Discipline" ["handler"] = true ∧
    confined "v2/join" "Discipline" [] = true ∧
    confined "v2/join/unite" "Discipline" [] = true ∧
    confined "join" "Discipline" [] = true ∧
    confined "v2/limit" "Discipline" [] = true := by decide

/-- non-vacuity of the confinement check: the main goroutine does write scheduler state, and
    the API touches only channels -/
theorem c20_main_writes :
    writtenBy (methodsOf "v2/priority" "Discipline") (reach (methodsOf "v2/priority" "Discipline") 12 ["main"]) =
      ["inputs", "actual", "tactic", "uncrowded", "useful"] ∧
    accessedBy (methodsOf "v2/priority" "Discipline") (reach (methodsOf "v2/priority" "Discipline") 12 (apiRoots (methodsOf "v2/priority" "Discipline"))) =
      ["output", "feedback", "err"] := by decide

/-- every constructor starts its goroutine last: after the `go` statement only `return`
    follows, so every constructor write happens-before the goroutine starts -/
def afterGo : List (String × String) → Option (List (String × String))
  | [] => none
  | (k, _) :: rest => if k == "go" then some rest else afterGo rest

def ctorOK (kinds : List (String × String)) : Bool :=
  match afterGo kinds with
  | none => true               -- no goroutine started here (v2 simple: started in main)
  | some rest => rest.all (fun k => k.1 == "return")

theorem c20_ctors : (ctors.all (fun r => ctorOK r.2.2)) = true := by decide

end Cqos.Facts
