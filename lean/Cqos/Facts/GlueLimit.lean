import Cqos.Facts.Defs
/-
  Glue skeletons.  The functions listed here are executed only by the disciplines' own
  goroutines or called by the user (`main`, `loop`, `loopUntimeouted`, `transfer`, the handlers
  of the simplified disciplines, `Stop`, `GracefulStop`, `Release`, `AddInput`, `RemoveInput`):
  the steppers call the functions *inside* them one at a time and the step machines of
  Cqos/Sched.lean, Join.lean, Limit.lean, Simple.lean, SimpleV1.lean encode how these glue
  functions compose them.  The table `callseq` (regenerated from /repo on every run) holds, for
  each of them, the calls made through the receiver (with their argument text), channel
  operations, `time.*` calls and the control skeleton, in source order, with local variables
  renamed `$1, $2, …` in order of first appearance; the theorems below pin it to the
  composition the machines assume.  A change of the glue (a reordered call, another argument,
  an extra branch) breaks the obligation of the properties that rely on that composition; the
  black-box scenarios then look for a failing input.
-/
namespace Cqos.Facts

def glueLimitExpected : List (String × String × String × List String) := [
  ("v2/limit", "Discipline", "main", ["dsc.loop()"]),
  ("v2/limit", "Discipline", "loop", ["for", "dsc.transfer()", "if $2", "return", "dsc.delay($1)"]),
  ("v2/limit", "Discipline", "transfer", ["time.Now()", "if $2", "dsc.pass()", "return", "return", "time.Since($1)"])
]

/-- limit: `main` = `loop` then close (deferred); `loop` = transfer, stop test, `delay(duration)`; `transfer` = clock reading, `pass`, elapsed time -/
theorem glueLimit : callseq.filter (fun r => r.1 == "v2/limit") = glueLimitExpected := by decide

end Cqos.Facts
