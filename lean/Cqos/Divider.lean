import Cqos.Dist
/-
  Model of `v2/priority/divider/divider.go` (Fair, Rate), `priority/divider.go`
  (FairDivider, RateDivider) and `*/priority/internal/common/priorities.go`.
-/
namespace Cqos

/-- `common.SumPriorities` -/
def sumPriorities : List Nat → Nat
  | [] => 0
  | p :: ps => p + sumPriorities ps

/-- stable insertion into a list sorted from highest to lowest (equal keys keep order) -/
def insertDesc (p : Nat) : List Nat → List Nat
  | [] => [p]
  | x :: r => if x < p then p :: x :: r else x :: insertDesc p r

/-- `common.SortPriorities`: stable sort, highest first -/
def sortDesc (ps : List Nat) : List Nat := ps.foldr insertDesc []

/-! ### Fair -/

/-- the `for` loop of `Fair`: `base` to everybody, one more while `rem` lasts -/
def fairLoop : List Nat → Nat → Nat → Dist → Dist
  | [], _, _, m => m
  | p :: ps, base, rem, m =>
    if rem = 0 then fairLoop ps base 0 (m.add p base)
    else fairLoop ps base (rem - 1) (m.add p (base + 1))

/-- `divider.Fair` on a non-nil map -/
def fair (ps : List Nat) (d : Nat) (m : Dist) : Dist :=
  if ps = [] then m
  else fairLoop ps (d / ps.length) (d - (d / ps.length) * ps.length) m

/-! ### Rate -/

/-- The `for` loop of `Rate`, parametric in the rounding function `part`.
    Returns the map and `some remainder` when the loop ran to its end, `none` when it
    left through the truncating `return`. -/
def rateLoop (part : Nat → Nat) : List Nat → Nat → Dist → Dist × Option Nat
  | [], rem, m => (m, some rem)
  | p :: ps, rem, m =>
    if rem < part p then (m.add p rem, none)
    else rateLoop part ps (rem - part p) (m.add p (part p))

/-- `divider.Rate` on a non-nil map, for an arbitrary `part` -/
def rateWith (part : Nat → Nat) (ps : List Nat) (d : Nat) (m : Dist) : Dist :=
  match ps with
  | [] => m
  | p0 :: _ =>
    match rateLoop part ps d m with
    | (m', none) => m'
    | (m', some r) => m'.add p0 r

/-- `uint(math.Round(float64(d)/float64(S) * float64(p)))` with the same IEEE-754
    operations Go performs (Lean `Float` is the C `double`; `Float.round` is C `round`,
    half away from zero, like `math.Round`). -/
def floatPart (d s : Nat) (p : Nat) : Nat :=
  (Float.round ((Float.ofNat d / Float.ofNat s) * Float.ofNat p)).toUInt64.toNat

/-- exact half-away-from-zero rounding of `d*p/s`, used only to report how the float
    relates to the exact value -/
def exactPart (d s : Nat) (p : Nat) : Nat := (2 * d * p + s) / (2 * s)

/-- decidable form of the hypothesis of `c14_rate_mono`, evaluated by the driver -/
def antitoneAlong (part : Nat → Nat) : List Nat → Bool
  | [] => true
  | p :: ps => ps.all (fun q => part q ≤ part p) && antitoneAlong part ps

/-- decidable form of "`part p` is within 1/2 of `d*p/s`" (hypothesis of the n/2 bound) -/
def nearHalf (d s : Nat) (part : Nat → Nat) (p : Nat) : Bool :=
  2 * s * part p ≤ 2 * d * p + s && 2 * d * p ≤ 2 * s * part p + s

/-- both float hypotheses of C14 on one call -/
def floatHypsHold (ps : List Nat) (d : Nat) : Bool :=
  let s := sumPriorities ps
  antitoneAlong (floatPart d s) ps && ps.all (nearHalf d s (floatPart d s))

def rate (ps : List Nat) (d : Nat) (m : Dist) : Dist :=
  rateWith (floatPart d (sumPriorities ps)) ps d m

/-! ### v1 variants: nil map is created, empty list yields nil -/

/-- `none` models a nil map -/
def fairV1 (ps : List Nat) (d : Nat) (m : Option Dist) : Option Dist :=
  if ps = [] then none else some (fair ps d (m.getD []))

def rateV1 (ps : List Nat) (d : Nat) (m : Option Dist) : Option Dist :=
  if ps = [] then none else some (rate ps d (m.getD []))

/-- v2 with a nil map: nothing happens -/
def fairV2 (ps : List Nat) (d : Nat) (m : Option Dist) : Option Dist := m.map (fair ps d)
def rateV2 (ps : List Nat) (d : Nat) (m : Option Dist) : Option Dist := m.map (rate ps d)

/-- NOT a library function: a contract-abiding custom divider used by the correspondence runs of
    the helper / constructor checks (C15, C18) — one unit to the LOWEST listed priority, the rest
    as `fair`.  It conserves the dividend, yet can leave a priority that is not the lowest with
    nothing (`[3,2,1]`, 2 handlers: 3 ↦ 1, 2 ↦ 0, 1 ↦ 1), which the library's own dividers never do. -/
def lowfirst (ps : List Nat) (d : Nat) (m : Dist) : Dist :=
  match ps.getLast? with
  | none => m
  | some l => if d = 0 then m else fair ps (d - 1) (m.add l 1)

/-- NOT a library function: a divider that does not conserve the dividend (every listed priority
    gets `d` units), used by the correspondence runs of the helper checks (C18): the helpers are
    defined by what the divider gives. -/
def quota (ps : List Nat) (d : Nat) (m : Dist) : Dist :=
  ps.foldl (fun acc p => acc.add p d) m

/-- `general.DivideWithMin` -/
def divideWithMin (base divider min : Nat) : Nat :=
  if divider = 0 then base else if base / divider < min then min else base / divider

end Cqos
