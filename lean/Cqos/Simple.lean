import Cqos.Sched
/-
  The simplified priority disciplines (v2 `priority/simple`, v1 `priority.Simple`) as a thin
  layer over the scheduler machine: `HandlersQuantity` handler goroutines, each of which
  repeats "receive an item from the inner discipline's output — call `Handle` — release".

  The layer adds what the handlers are doing to the state of the inner machine and REMOVES
  the environment's freedom to release: a release is issued only by a handler whose `Handle`
  call has returned (`finish`).  That a handler is `Handle; Release` in this order is read off
  the regenerated glue skeleton (Facts/GluePrioV2, GluePrioV1).
-/
namespace Cqos

structure SimpleSt where
  inner : St
  handling : List Nat       -- priorities of the items whose `Handle` call is running
  picked : Nat              -- how many delivered items the handlers have received so far
  handled : List (Nat × Nat × Nat)   -- (priority, channel, item) of every `Handle` call made, in order (ghost)
  deriving Repr

inductive SAct
  | inner (a : Act)         -- an action of the inner machine other than `release`
  | take                    -- a handler receives the next delivered item and calls `Handle`
  | finish (p : Nat)        -- a `Handle` call for an item of priority `p` returned: `Release(p)`
  deriving Repr, DecidableEq

def isRelease : Act → Bool
  | .release _ => true
  | _ => false

def sstep (div : DivFn) (s : SimpleSt) : SAct → Option SimpleSt
  | .inner a => if isRelease a then none else (step div s.inner a).map (fun i => { s with inner := i })
  | .take =>
    match s.inner.delivered[s.picked]? with
    | some d => some { s with handling := d.1 :: s.handling, picked := s.picked + 1, handled := s.handled ++ [d] }
    | none => none
  | .finish p =>
    if p ∈ s.handling then
      (step div s.inner (.release p)).map (fun i => { s with inner := i, handling := s.handling.erase p })
    else none

def srun (div : DivFn) (s : SimpleSt) : List SAct → Option SimpleSt
  | [] => some s
  | a :: as => match sstep div s a with
    | some s' => srun div s' as
    | none => none

def sinit (s0 : St) : SimpleSt := { inner := s0, handling := [], picked := s0.delivered.length, handled := [] }

end Cqos
