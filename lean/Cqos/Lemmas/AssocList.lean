import Cqos.Sched
/-
  Lemmas about the association-list helpers `alGet` / `alSet` / `alErase` of the scheduler
  machine (inputs by priority, channels by identity).
-/
namespace Cqos

def alKeys {α} (l : List (Nat × α)) : List Nat := l.map (·.1)

theorem alGet_alSet' {α} (l : List (Nat × α)) (k k' : Nat) (v : α) :
    alGet (alSet l k v) k' = if k = k' then some v else alGet l k' := by
  induction l with
  | nil => simp [alSet, alGet]
  | cons e r ih =>
    obtain ⟨k0, v0⟩ := e
    simp only [alSet]
    by_cases h : k0 = k
    · subst h
      by_cases h2 : k0 = k' <;> simp [alGet, h2]
    · simp only [h, if_false, alGet]
      by_cases h2 : k0 = k'
      · subst h2
        have : ¬ k = k0 := fun e => h e.symm
        simp [this]
      · simp [h2, ih]

theorem alGet_isSome_iff {α} (l : List (Nat × α)) (k : Nat) : (alGet l k).isSome ↔ k ∈ alKeys l := by
  induction l with
  | nil => simp [alGet, alKeys]
  | cons e r ih =>
    obtain ⟨k0, v0⟩ := e
    simp only [alGet, alKeys, List.map_cons, List.mem_cons]
    by_cases h : k0 = k
    · simp [h]
    · have : ¬ k = k0 := fun e => h e.symm
      simp only [h, if_false, this, false_or]
      exact ih

theorem alKeys_alSet {α} (l : List (Nat × α)) (k : Nat) (v : α) (x : Nat) :
    x ∈ alKeys (alSet l k v) ↔ x ∈ alKeys l ∨ x = k := by
  rw [← alGet_isSome_iff, alGet_alSet', ← alGet_isSome_iff]
  by_cases h : k = x
  · subst h; simp
  · have : ¬ x = k := fun e => h e.symm
    simp [h, this]

theorem nodup_alSet {α} (l : List (Nat × α)) (k : Nat) (v : α) (h : (alKeys l).Nodup) : (alKeys (alSet l k v)).Nodup := by
  induction l with
  | nil => simp [alSet, alKeys]
  | cons e r ih =>
    obtain ⟨k0, v0⟩ := e
    simp only [alKeys, List.map_cons, List.nodup_cons] at h
    simp only [alSet]
    split
    · simpa [alKeys] using h
    · rename_i hne
      simp only [alKeys, List.map_cons, List.nodup_cons]
      refine ⟨?_, ih h.2⟩
      intro hin
      rcases (alKeys_alSet r k v k0).1 hin with h1 | h1
      · exact h.1 h1
      · exact hne h1

theorem alKeys_alErase_sub {α} (l : List (Nat × α)) (k : Nat) : (alKeys (alErase l k)).Sublist (alKeys l) := by
  induction l with
  | nil => simp [alErase, alKeys]
  | cons e r ih =>
    obtain ⟨k0, v0⟩ := e
    simp only [alErase]
    split
    · simp only [alKeys, List.map_cons]; exact List.sublist_cons_self _ _
    · simp only [alKeys, List.map_cons]; exact List.Sublist.cons_cons _ ih

theorem nodup_alErase {α} (l : List (Nat × α)) (k : Nat) (h : (alKeys l).Nodup) : (alKeys (alErase l k)).Nodup :=
  List.Sublist.nodup (alKeys_alErase_sub l k) h

theorem alGet_alErase {α} (l : List (Nat × α)) (k k' : Nat) (h : (alKeys l).Nodup) :
    alGet (alErase l k) k' = if k = k' then none else alGet l k' := by
  induction l with
  | nil => simp [alErase, alGet]
  | cons e r ih =>
    obtain ⟨k0, v0⟩ := e
    simp only [alKeys, List.map_cons, List.nodup_cons] at h
    simp only [alErase]
    by_cases h0 : k0 = k
    · subst h0
      simp only [if_true]
      by_cases h2 : k0 = k'
      · subst h2
        simp only [if_true]
        cases hg : alGet r k0 with
        | none => rfl
        | some v =>
          have : (alGet r k0).isSome := by simp [hg]
          exact absurd ((alGet_isSome_iff r k0).1 this) h.1
      · simp [alGet, h2]
    · simp only [h0, if_false, alGet]
      by_cases h2 : k0 = k'
      · subst h2
        have : ¬ k = k0 := fun e => h0 e.symm
        simp [this]
      · simp only [h2, if_false]
        exact ih h.2

end Cqos
