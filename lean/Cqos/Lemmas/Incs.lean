import Cqos.Divider
/-
  Helper lemmas: a divider loop adds a list of increments, one per listed priority.
  `applyIncs ps is m` adds `is[j]` to the entry of `ps[j]`; both Fair and Rate are shown to
  be instances, which separates the map bookkeeping from the arithmetic of the increments.
-/
namespace Cqos

def applyIncs : List Nat → List Nat → Dist → Dist
  | p :: ps, i :: is, m => applyIncs ps is (m.add p i)
  | _, _, m => m

theorem total_applyIncs (ps is : List Nat) (m : Dist) (h : ps.length = is.length) :
    (applyIncs ps is m).total = m.total + is.sum := by
  induction ps generalizing is m with
  | nil => cases is <;> simp_all [applyIncs]
  | cons p ps ih =>
    cases is with
    | nil => simp at h
    | cons i is =>
      simp only [applyIncs, List.sum_cons]
      rw [ih _ _ (by simpa using h), Dist.total_add]; omega

theorem get_applyIncs_notin (ps is : List Nat) (m : Dist) (k : Nat) (hk : k ∉ ps) :
    (applyIncs ps is m).get k = m.get k := by
  induction ps generalizing is m with
  | nil => cases is <;> rfl
  | cons p ps ih =>
    cases is with
    | nil => rfl
    | cons i is =>
      simp only [applyIncs]
      rw [ih _ _ (fun h => hk (List.mem_cons_of_mem _ h))]
      exact Dist.get_add_other _ _ _ _ (fun e => hk (by simp [e]))

theorem get_applyIncs (ps is : List Nat) (m : Dist) (hnd : ps.Nodup) (h : ps.length = is.length)
    (j : Nat) (hj : j < ps.length) :
    (applyIncs ps is m).get (ps[j]) = m.get (ps[j]) + is[j]'(h ▸ hj) := by
  induction ps generalizing is m j with
  | nil => simp at hj
  | cons p ps ih =>
    cases is with
    | nil => simp at h
    | cons i is =>
      have hnd' := List.nodup_cons.1 hnd
      simp only [applyIncs]
      cases j with
      | zero =>
        simp only [List.getElem_cons_zero]
        rw [get_applyIncs_notin _ _ _ _ hnd'.1, Dist.get_add_same]
      | succ j =>
        simp only [List.getElem_cons_succ]
        have hj' : j < ps.length := by simpa using hj
        rw [ih _ _ hnd'.2 (by simpa using h) j hj']
        have : p ≠ ps[j] := fun e => hnd'.1 (e ▸ List.getElem_mem hj')
        rw [Dist.get_add_other _ _ _ _ this]

/-! ### Fair -/

def fairIncs : Nat → Nat → Nat → List Nat
  | 0, _, _ => []
  | n + 1, base, rem => if rem = 0 then base :: fairIncs n base 0 else (base + 1) :: fairIncs n base (rem - 1)

theorem fairIncs_length (n base rem : Nat) : (fairIncs n base rem).length = n := by
  induction n generalizing rem with
  | zero => rfl
  | succ n ih => simp only [fairIncs]; split <;> simp [ih]

theorem fairLoop_eq (ps : List Nat) (base rem : Nat) (m : Dist) :
    fairLoop ps base rem m = applyIncs ps (fairIncs ps.length base rem) m := by
  induction ps generalizing rem m with
  | nil => rfl
  | cons p ps ih =>
    simp only [fairLoop, List.length_cons, fairIncs]
    split <;> simp [applyIncs, ih]

theorem fairIncs_sum (n base rem : Nat) (h : rem ≤ n) : (fairIncs n base rem).sum = base * n + rem := by
  induction n generalizing rem with
  | zero => simp [fairIncs]; omega
  | succ n ih =>
    simp only [fairIncs]
    split
    · rename_i h0; subst h0
      simp only [List.sum_cons]; rw [ih 0 (by omega), Nat.mul_succ]; omega
    · simp only [List.sum_cons]; rw [ih (rem - 1) (by omega), Nat.mul_succ]; omega

theorem fairIncs_get (n base rem : Nat) (j : Nat) (hj : j < (fairIncs n base rem).length) :
    (fairIncs n base rem)[j] = base + (if j < rem then 1 else 0) := by
  induction n generalizing rem j with
  | zero => simp [fairIncs] at hj
  | succ n ih =>
    simp only [fairIncs] at hj ⊢
    split
    · rename_i h0; subst h0
      cases j with
      | zero => simp
      | succ j => simp only [List.getElem_cons_succ]; rw [ih]; simp
    · rename_i h0
      cases j with
      | zero => simp; omega
      | succ j =>
        simp only [List.getElem_cons_succ]; rw [ih]
        by_cases hjr : j < rem - 1
        · have : j + 1 < rem := by omega
          simp [hjr, this]
        · have : ¬ j + 1 < rem := by omega
          simp [hjr, this]

/-! ### Rate -/

/-- the increments the loop of `Rate` hands out, and the leftover (`none` = truncated) -/
def rateIncs (part : Nat → Nat) : List Nat → Nat → List Nat × Option Nat
  | [], rem => ([], some rem)
  | p :: ps, rem =>
    if rem < part p then (rem :: ps.map (fun _ => 0), none)
    else ((part p) :: (rateIncs part ps (rem - part p)).1, (rateIncs part ps (rem - part p)).2)

theorem rateIncs_length (part : Nat → Nat) (ps : List Nat) (rem : Nat) :
    (rateIncs part ps rem).1.length = ps.length := by
  induction ps generalizing rem with
  | nil => rfl
  | cons p ps ih => simp only [rateIncs]; split <;> simp [ih]

theorem get_zero_incs (ps : List Nat) (m : Dist) (k : Nat) :
    (applyIncs ps (ps.map fun _ => 0) m).get k = m.get k := by
  induction ps generalizing m with
  | nil => rfl
  | cons p ps ih => simp only [List.map_cons, applyIncs]; rw [ih]; simp [Dist.get_add]

/-- the map after the loop has, entry by entry, the values of `applyIncs` (the truncating
    `return` leaves the later keys absent, which `get` reads as 0) -/
theorem rateLoop_get (part : Nat → Nat) (ps : List Nat) (rem : Nat) (m : Dist) (k : Nat) :
    (rateLoop part ps rem m).1.get k = (applyIncs ps (rateIncs part ps rem).1 m).get k ∧
    (rateLoop part ps rem m).2 = (rateIncs part ps rem).2 := by
  induction ps generalizing rem m with
  | nil => exact ⟨rfl, rfl⟩
  | cons p ps ih =>
    simp only [rateLoop, rateIncs]
    split
    · simp only [applyIncs, and_true]; rw [get_zero_incs]
    · simp only [applyIncs]; exact ih _ _

theorem rateLoop_total (part : Nat → Nat) (ps : List Nat) (rem : Nat) (m : Dist) :
    (rateLoop part ps rem m).1.total + ((rateLoop part ps rem m).2.getD 0) = m.total + rem := by
  induction ps generalizing rem m with
  | nil => simp [rateLoop]
  | cons p ps ih =>
    simp only [rateLoop]
    split
    · simp
    · rw [ih, Dist.total_add]; omega

end Cqos
