import Cqos.Props.C03
/-
  Effect equations of the building blocks of the join/unite machine, shared by the
  proofs of C08, C09, C10 and C11.
-/
namespace Cqos
open Cqos.C03

theorem jpass_empty_eq (s : JSt) (t : Nat) (tk : Bool) (nx : Option (Nat × List Nat)) (hb : s.buf = []) :
    jpass s t tk nx = { s with passAt := t } := by simp [jpass, hb]

theorem jpass_copy_eq (s : JSt) (t : Nat) (tk : Bool) (nx : Option (Nat × List Nat)) (hb : s.buf ≠ [])
    (hc : s.cfg.noCopy = false) :
    jpass s t tk nx = { s with out := s.out ++ [s.buf], events := s.events ++ [JEvent.emit s.nextId s.buf] ++ [JEvent.write], emitAt := s.emitAt ++ [t], byTick := s.byTick ++ [tk], nextId := s.nextId + 1, buf := [], passAt := t } := by
  simp [jpass, hb, hc, jsend, jafterPass]

theorem jpass_nocopy_eq (s : JSt) (t : Nat) (tk : Bool) (nx : Option (Nat × List Nat)) (hb : s.buf ≠ [])
    (hc : s.cfg.noCopy = true) :
    jpass s t tk nx = { s with out := s.out ++ [s.buf], events := s.events ++ [JEvent.emit 0 s.buf], emitAt := s.emitAt ++ [t], byTick := s.byTick ++ [tk], pc := .await nx } := by
  simp [jpass, hb, hc, jsend]

theorem jappendPath_stay_eq (s : JSt) (xs : List Nat) (t : Nat) (h : s.buf.length + xs.length < s.cfg.size) :
    jappendPath s xs t = { s with buf := s.buf ++ xs, events := s.events ++ [JEvent.write], firstAt := (if s.buf = [] then t else s.firstAt) } := by
  simp only [jappendPath, jappend]
  simp [h]

theorem jappendPath_full_eq (s : JSt) (xs : List Nat) (t : Nat) (h : ¬ s.buf.length + xs.length < s.cfg.size) :
    jappendPath s xs t = jpass { s with buf := s.buf ++ xs, events := s.events ++ [JEvent.write], firstAt := (if s.buf = [] then t else s.firstAt) } t false none := by
  simp only [jappendPath, jappend]
  simp [h]

theorem jforward_copy_eq (s : JSt) (id : Nat) (xs : List Nat) (t : Nat) (hc : s.cfg.noCopy = false) :
    jforward s id xs t = { s with out := s.out ++ [xs], events := s.events ++ [JEvent.emit s.nextId xs], emitAt := s.emitAt ++ [t], byTick := s.byTick ++ [false], nextId := s.nextId + 1, passAt := t } := by
  simp [jforward, jsend, hc]

theorem jforward_nocopy_eq (s : JSt) (id : Nat) (xs : List Nat) (t : Nat) (hc : s.cfg.noCopy = true) :
    jforward s id xs t = { s with out := s.out ++ [xs], events := s.events ++ [JEvent.emit id xs], emitAt := s.emitAt ++ [t], byTick := s.byTick ++ [false], pc := .await none } := by
  simp [jforward, jsend, hc]

end Cqos
