import Cqos.Lemmas.DistKeys
/-
  Sums of a distribution over a list of priorities, and their relation to `Dist.total`.
-/
namespace Cqos

def sumOver (ps : List Nat) (m : Dist) : Nat := (ps.map m.get).sum

namespace Dist

theorem get_erase_other (m : Dist) (k q : Nat) (h : k ≠ q) : (m.erase k).get q = m.get q := by
  induction m with
  | nil => rfl
  | cons e r ih =>
    obtain ⟨k0, v0⟩ := e
    simp only [erase]
    by_cases h0 : k0 = k
    · subst h0
      have : ¬ k0 = q := h
      simp [get, this]
    · simp only [h0, if_false, get]
      split
      · rfl
      · exact ih

theorem keys_erase_sub (m : Dist) (k : Nat) : ((m.erase k).map (·.1)).Sublist (m.map (·.1)) := by
  induction m with
  | nil => simp [erase]
  | cons e r ih =>
    obtain ⟨k0, v0⟩ := e
    simp only [erase]
    split
    · simp only [List.map_cons]; exact List.sublist_cons_self _ _
    · simp only [List.map_cons]; exact List.Sublist.cons_cons _ ih

theorem nodupKeys_erase (m : Dist) (k : Nat) (h : m.NodupKeys) : (m.erase k).NodupKeys :=
  List.Sublist.nodup (keys_erase_sub m k) h

theorem get_erase_self (m : Dist) (k : Nat) (h : m.NodupKeys) : (m.erase k).get k = 0 := by
  induction m with
  | nil => rfl
  | cons e r ih =>
    obtain ⟨k0, v0⟩ := e
    simp only [NodupKeys, List.map_cons, List.nodup_cons] at h
    simp only [erase]
    by_cases h0 : k0 = k
    · subst h0
      simp only [if_true]
      exact get_eq_zero_of_not_mem _ _ h.1
    · simp only [h0, if_false, get]
      exact ih h.2

/-- all entries read zero ⇒ total zero (duplicate-free keys) -/
theorem total_zero_of_get_zero (m : Dist) (hn : m.NodupKeys) (h : ∀ k, m.get k = 0) : m.total = 0 := by
  induction m with
  | nil => rfl
  | cons e r ih =>
    obtain ⟨k0, v0⟩ := e
    simp only [NodupKeys, List.map_cons, List.nodup_cons] at hn
    have hv : v0 = 0 := by have := h k0; simpa [get] using this
    have hr : ∀ k, get r k = 0 := by
      intro k
      by_cases hk : k0 = k
      · subst hk; exact get_eq_zero_of_not_mem _ _ hn.1
      · have := h k; simpa [get, hk] using this
    simp [total, hv, ih hn.2 hr]

end Dist

/-- for a duplicate-free map whose entries outside `ps` read zero, the total is the sum over `ps` -/
theorem total_eq_sumOver (ps : List Nat) (hps : ps.Nodup) (m : Dist) (hn : m.NodupKeys)
    (hout : ∀ k, k ∉ ps → m.get k = 0) : m.total = sumOver ps m := by
  induction ps generalizing m with
  | nil => simp [sumOver]; exact Dist.total_zero_of_get_zero m hn (fun k => hout k (by simp))
  | cons p ps ih =>
    have hnd := List.nodup_cons.1 hps
    have he := Dist.total_erase m p
    have hrec := ih hnd.2 (m.erase p) (Dist.nodupKeys_erase m p hn) (fun k hk => by
      by_cases hkp : p = k
      · subst hkp; exact Dist.get_erase_self m p hn
      · rw [Dist.get_erase_other m p k hkp]; exact hout k (by simp [hk, Ne.symm hkp]))
    have hsame : sumOver ps (m.erase p) = sumOver ps m := by
      unfold sumOver
      congr 1
      apply List.map_congr_left
      intro q hq
      exact Dist.get_erase_other m p q (fun e => hnd.1 (e ▸ hq))
    simp only [sumOver, List.map_cons, List.sum_cons] at hrec hsame ⊢
    omega

/-- equal sums and pointwise `≤` force pointwise equality -/
theorem eq_of_sum_eq_of_le (ps : List Nat) (a b : Dist) (hle : ∀ p ∈ ps, a.get p ≤ b.get p)
    (hs : sumOver ps a = sumOver ps b) : ∀ p ∈ ps, a.get p = b.get p := by
  induction ps with
  | nil => intro p hp; simp at hp
  | cons q qs ih =>
    have hq := hle q (by simp)
    have hrest : sumOver qs a ≤ sumOver qs b := by
      clear ih hs hq
      induction qs with
      | nil => simp [sumOver]
      | cons r rs ihr =>
        simp only [sumOver, List.map_cons, List.sum_cons]
        have := hle r (by simp)
        have := ihr (fun p hp => hle p (by simp only [List.mem_cons] at hp ⊢; rcases hp with h | h; exact Or.inl h; exact Or.inr (Or.inr h)))
        simp only [sumOver] at this
        omega
    simp only [sumOver, List.map_cons, List.sum_cons] at hs hrest
    intro p hp
    simp only [List.mem_cons] at hp
    rcases hp with rfl | hp
    · omega
    · exact ih (fun r hr => hle r (by simp [hr])) (by simp only [sumOver]; omega) p hp

end Cqos
