import Cqos.Divider
/-
  `sortDesc` (model of `common.SortPriorities`): a permutation of its argument, sorted from
  highest to lowest; strictly so when the argument has no duplicates.
-/
namespace Cqos

theorem insertDesc_perm (p : Nat) (l : List Nat) : (insertDesc p l).Perm (p :: l) := by
  induction l with
  | nil => simp [insertDesc]
  | cons x r ih =>
    simp only [insertDesc]
    split
    · exact List.Perm.refl _
    · exact (List.Perm.cons x ih).trans (List.Perm.swap p x r)

theorem sortDesc_perm (l : List Nat) : (sortDesc l).Perm l := by
  induction l with
  | nil => simp [sortDesc]
  | cons p r ih =>
    simp only [sortDesc, List.foldr_cons]
    exact (insertDesc_perm p _).trans (List.Perm.cons p ih)

theorem mem_sortDesc (l : List Nat) (x : Nat) : x ∈ sortDesc l ↔ x ∈ l := (sortDesc_perm l).mem_iff

theorem insertDesc_sorted (p : Nat) (l : List Nat) (h : l.Pairwise (· ≥ ·)) : (insertDesc p l).Pairwise (· ≥ ·) := by
  induction l with
  | nil => simp [insertDesc]
  | cons x r ih =>
    have hx := List.pairwise_cons.1 h
    simp only [insertDesc]
    split
    · rename_i hlt
      refine List.pairwise_cons.2 ⟨?_, h⟩
      intro y hy
      simp only [List.mem_cons] at hy
      rcases hy with rfl | hy
      · omega
      · have := hx.1 y hy; omega
    · rename_i hge
      refine List.pairwise_cons.2 ⟨?_, ih hx.2⟩
      intro y hy
      have := (insertDesc_perm p r).mem_iff.1 hy
      simp only [List.mem_cons] at this
      rcases this with rfl | hy'
      · omega
      · exact hx.1 y hy'

theorem sortDesc_sorted (l : List Nat) : (sortDesc l).Pairwise (· ≥ ·) := by
  induction l with
  | nil => simp [sortDesc]
  | cons p r ih => simp only [sortDesc, List.foldr_cons]; exact insertDesc_sorted p _ ih

/-- sorted and duplicate-free ⇒ strictly decreasing -/
theorem strict_of_sorted_nodup (l : List Nat) (hs : l.Pairwise (· ≥ ·)) (hn : l.Nodup) : l.Pairwise (· > ·) := by
  induction l with
  | nil => simp
  | cons x r ih =>
    have h1 := List.pairwise_cons.1 hs
    have h2 := List.nodup_cons.1 hn
    refine List.pairwise_cons.2 ⟨?_, ih h1.2 h2.2⟩
    intro y hy
    have := h1.1 y hy
    have hne : x ≠ y := fun e => h2.1 (e ▸ hy)
    omega

theorem sortDesc_strict (l : List Nat) (hn : l.Nodup) : (sortDesc l).Pairwise (· > ·) :=
  strict_of_sorted_nodup _ (sortDesc_sorted l) ((sortDesc_perm l).nodup_iff.2 hn)

theorem nodup_of_strict (l : List Nat) (h : l.Pairwise (· > ·)) : l.Nodup := by
  induction l with
  | nil => simp
  | cons x r ih =>
    have h1 := List.pairwise_cons.1 h
    exact List.nodup_cons.2 ⟨fun hin => by have := h1.1 x hin; omega, ih h1.2⟩

end Cqos
