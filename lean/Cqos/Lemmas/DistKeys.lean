import Cqos.Sched
/-
  Key-uniqueness of association lists and the lemmas about `clearActual`, `erase`,
  `count`/`erase` on the pending list that the scheduler invariants need.
-/
namespace Cqos
namespace Dist

def NodupKeys (m : Dist) : Prop := (m.map (·.1)).Nodup

theorem nodupKeys_nil : NodupKeys [] := by simp [NodupKeys]

theorem keys_add (m : Dist) (k v : Nat) :
    ∀ x, x ∈ (add m k v).map (·.1) ↔ x ∈ m.map (·.1) ∨ x = k := by
  induction m with
  | nil => intro x; simp [add]
  | cons e r ih =>
    obtain ⟨k', v'⟩ := e
    intro x
    simp only [add]
    split
    · rename_i h; subst h; simp; grind
    · simp only [List.map_cons, List.mem_cons, ih x]; grind

theorem nodupKeys_add (m : Dist) (k v : Nat) (h : NodupKeys m) : NodupKeys (add m k v) := by
  induction m with
  | nil => simp [add, NodupKeys]
  | cons e r ih =>
    obtain ⟨k', v'⟩ := e
    simp only [NodupKeys, List.map_cons, List.nodup_cons] at h
    simp only [add]
    split
    · simpa [NodupKeys] using h
    · rename_i hne
      simp only [NodupKeys, List.map_cons, List.nodup_cons]
      refine ⟨?_, ih h.2⟩
      intro hin
      rcases (keys_add r k v k').1 hin with h1 | h1
      · exact h.1 h1
      · exact hne h1

theorem keys_set (m : Dist) (k v : Nat) :
    ∀ x, x ∈ (set m k v).map (·.1) ↔ x ∈ m.map (·.1) ∨ x = k := by
  induction m with
  | nil => intro x; simp [set]
  | cons e r ih =>
    obtain ⟨k', v'⟩ := e
    intro x
    simp only [set]
    split
    · rename_i h; subst h; simp; grind
    · simp only [List.map_cons, List.mem_cons, ih x]; grind

theorem nodupKeys_set (m : Dist) (k v : Nat) (h : NodupKeys m) : NodupKeys (set m k v) := by
  induction m with
  | nil => simp [set, NodupKeys]
  | cons e r ih =>
    obtain ⟨k', v'⟩ := e
    simp only [NodupKeys, List.map_cons, List.nodup_cons] at h
    simp only [set]
    split
    · simpa [NodupKeys] using h
    · rename_i hne
      simp only [NodupKeys, List.map_cons, List.nodup_cons]
      refine ⟨?_, ih h.2⟩
      intro hin
      rcases (keys_set r k v k').1 hin with h1 | h1
      · exact h.1 h1
      · exact hne h1

theorem get_eq_zero_of_not_mem (m : Dist) (k : Nat) (h : k ∉ m.map (·.1)) : get m k = 0 := by
  induction m with
  | nil => rfl
  | cons e r ih =>
    obtain ⟨k', v'⟩ := e
    simp only [List.map_cons, List.mem_cons, not_or] at h
    simp only [get]
    have : ¬ k' = k := fun e => h.1 e.symm
    simp [this, ih h.2]

end Dist

theorem keys_clearActual (inputs : List (Nat × Input)) (m : Dist) :
    ∀ x, x ∈ (clearActual inputs m).map (·.1) → x ∈ m.map (·.1) := by
  induction m with
  | nil => intro x h; simp [clearActual] at h
  | cons e r ih =>
    obtain ⟨k, v⟩ := e
    intro x h
    simp only [clearActual] at h
    split at h
    · exact List.mem_cons_of_mem _ (ih x h)
    · simp only [List.map_cons, List.mem_cons] at h ⊢
      rcases h with h | h
      · exact Or.inl h
      · exact Or.inr (ih x h)

theorem nodupKeys_clearActual (inputs : List (Nat × Input)) (m : Dist) (h : m.NodupKeys) :
    (clearActual inputs m).NodupKeys := by
  induction m with
  | nil => simpa [clearActual] using h
  | cons e r ih =>
    obtain ⟨k, v⟩ := e
    simp only [Dist.NodupKeys, List.map_cons, List.nodup_cons] at h
    simp only [clearActual]
    split
    · exact ih h.2
    · simp only [Dist.NodupKeys, List.map_cons, List.nodup_cons]
      exact ⟨fun hin => h.1 (keys_clearActual inputs r k hin), ih h.2⟩

theorem total_clearActual (inputs : List (Nat × Input)) (m : Dist) :
    (clearActual inputs m).total = m.total := by
  induction m with
  | nil => rfl
  | cons e r ih =>
    obtain ⟨k, v⟩ := e
    simp only [clearActual]
    split
    · rename_i h; simp [Dist.total, ih, h.1]
    · simp [Dist.total, ih]

theorem get_clearActual (inputs : List (Nat × Input)) (m : Dist) (h : m.NodupKeys) (p : Nat) :
    (clearActual inputs m).get p = m.get p := by
  induction m with
  | nil => rfl
  | cons e r ih =>
    obtain ⟨k, v⟩ := e
    simp only [Dist.NodupKeys, List.map_cons, List.nodup_cons] at h
    simp only [clearActual]
    split
    · rename_i hz
      simp only [Dist.get]
      split
      · rename_i hk; subst hk
        rw [ih h.2, Dist.get_eq_zero_of_not_mem _ _ h.1, hz.1]
      · exact ih h.2
    · simp only [Dist.get]
      split
      · rfl
      · exact ih h.2

theorem total_erase_le (m : Dist) (k : Nat) : (m.erase k).total ≤ m.total := by
  have := Dist.total_erase m k; omega

end Cqos
