import Cqos.Sched
/-
  Inversion lemmas for `step`: for each action, the exact shape of the successor state.
  Every invariant proof about the scheduler machine goes through these, so the big case
  analysis over the control states is done once.
-/
namespace Cqos

/-- the head-priority context of a poll action -/
structure PollCtx (s : St) where
  phase : Nat
  p : Nat
  rest : List Nat
  hpc : s.pc = .prio phase (p :: rest)

theorem step_arrive {div : DivFn} {s s' : St} {c x : Nat} (h : step div s (.arrive c x) = some s') :
    ∃ ch, alGet s.chans c = some ch ∧ ch.closed = false ∧
      s' = { s with chans := alSet s.chans c { ch with queue := ch.queue ++ [x] },
                    arrived := s.arrived ++ [(c, x)] } := by
  simp only [step] at h
  split at h
  · rename_i ch hch
    split at h
    · cases h
    · rename_i hcl
      cases h
      exact ⟨ch, hch, by simpa using hcl, rfl⟩
  · cases h

theorem step_close {div : DivFn} {s s' : St} {c : Nat} (h : step div s (.close c) = some s') :
    ∃ ch, alGet s.chans c = some ch ∧ s' = { s with chans := alSet s.chans c { ch with closed := true } } := by
  simp only [step] at h
  split at h
  · rename_i ch hch; cases h; exact ⟨ch, hch, rfl⟩
  · cases h

theorem step_release {div : DivFn} {s s' : St} {p : Nat} (h : step div s (.release p) = some s') :
    s.inflight.get p ≠ 0 ∧
      s' = { s with inflight := s.inflight.set p (s.inflight.get p - 1), pending := s.pending ++ [p] } := by
  simp only [step] at h
  split at h
  · cases h
  · rename_i hne; cases h; exact ⟨hne, rfl⟩

theorem step_stop {div : DivFn} {s s' : St} (h : step div s .stop = some s') :
    s.cfg.v1 = true ∧ s' = { s with stopped := true } := by
  simp only [step] at h
  split at h
  · rename_i hv; cases h; exact ⟨hv, rfl⟩
  · cases h

theorem step_graceful {div : DivFn} {s s' : St} (h : step div s .graceful = some s') :
    s.cfg.v1 = true ∧ s' = { s with graceful := true } := by
  simp only [step] at h
  split at h
  · rename_i hv; cases h; exact ⟨hv, rfl⟩
  · cases h

/-- a discipline action taken in `prio phase (p :: rest)` is a poll action -/
theorem step_in_prio {div : DivFn} {s : St} {a : Act} {phase p : Nat} {rest : List Nat}
    (hpc : s.pc = .prio phase (p :: rest))
    (ha : ∀ c x, a ≠ .arrive c x) (hb : ∀ c, a ≠ .close c) (hc : ∀ q, a ≠ .release q)
    (hd : a ≠ .stop) (he : a ≠ .graceful) :
    step div s a = stepPoll s phase p rest a := by
  cases a <;> simp_all [step]

theorem step_top {div : DivFn} {s s' : St} {c : TopChoice} (h : step div s (.top c) = some s') :
    s.pc = .top ∧ stepTop div s c = some s' ∧ s.cfg.v1 = true := by
  simp only [step] at h
  split at h <;> try (cases h; done)
  · rename_i hpc
    split at h
    · rename_i hv; exact ⟨hpc, h, hv⟩
    · cases h
  · rename_i ph p rest hpc
    simp only [stepPoll] at h
    split at h
    · simp at h
    · split at h
      · simp at h
      · split at h <;> simp at h

theorem step_calc {div : DivFn} {s s' : St} (h : step div s .calc = some s') :
    s.pc = .calc ∧ s' = stepCalc div s := by
  simp only [step] at h
  split at h <;> try (cases h; done)
  · rename_i hpc; cases h; exact ⟨hpc, rfl⟩
  · rename_i ph p rest hpc
    simp only [stepPoll] at h
    split at h
    · simp at h
    · split at h
      · simp at h
      · split at h <;> simp at h

theorem step_recalc {div : DivFn} {s s' : St} (h : step div s .recalc = some s') :
    s.pc = .prio 1 [] ∧ s' = stepRecalc div s := by
  simp only [step] at h
  split at h <;> try (cases h; done)
  · rename_i ph hpc
    split at h
    · rename_i h1; subst h1; cases h; exact ⟨hpc, rfl⟩
    · cases h
  · rename_i ph p rest hpc
    simp only [stepPoll] at h
    split at h
    · simp at h
    · split at h
      · simp at h
      · split at h <;> simp at h

theorem step_endRound {div : DivFn} {s s' : St} (h : step div s .endRound = some s') :
    ∃ ph, s.pc = .prio ph [] ∧ ph ≠ 1 ∧
      ((s.processed = 0 ∧ (¬ s.cfg.v1 ∨ s.graceful) ∧ allDrained s.inputs = true ∧ s' = { s with pc := .drain none }) ∨
       (¬ (s.processed = 0 ∧ (¬ s.cfg.v1 ∨ s.graceful) ∧ allDrained s.inputs = true) ∧
          s' = { s with pc := .limited s.cfg.fbLimit })) := by
  simp only [step] at h
  split at h <;> try (cases h; done)
  · rename_i ph hpc
    split at h
    · cases h
    · rename_i h1
      split at h
      · rename_i hc; cases h
        exact ⟨ph, hpc, h1, Or.inl ⟨hc.1, hc.2.1, hc.2.2, rfl⟩⟩
      · rename_i hc; cases h
        exact ⟨ph, hpc, h1, Or.inr ⟨hc, rfl⟩⟩
  · rename_i ph p rest hpc
    simp only [stepPoll] at h
    split at h
    · simp at h
    · split at h
      · simp at h
      · split at h <;> simp at h

theorem step_limitedStop {div : DivFn} {s s' : St} (h : step div s .limitedStop = some s') :
    ∃ k, s.pc = .limited k ∧ s' = nextRound s := by
  simp only [step] at h
  split at h <;> try (cases h; done)
  · rename_i ph p rest hpc
    simp only [stepPoll] at h
    split at h
    · simp at h
    · split at h
      · simp at h
      · split at h <;> simp at h
  · rename_i k hpc; cases h; exact ⟨k, hpc, rfl⟩

theorem step_exit {div : DivFn} {s s' : St} (h : step div s .exit = some s') :
    ∃ e, s.pc = .drain e ∧ s.actual.allZero = true ∧ s' = { s with pc := .done e } := by
  simp only [step] at h
  split at h <;> try (cases h; done)
  · rename_i ph p rest hpc
    simp only [stepPoll] at h
    split at h
    · simp at h
    · split at h
      · simp at h
      · split at h <;> simp at h
  · rename_i e hpc
    split at h
    · rename_i hz; cases h; exact ⟨e, hpc, hz, rfl⟩
    · cases h

/-- `consume p`: which control state, and what follows -/
theorem step_consume {div : DivFn} {s s' : St} {p : Nat} (h : step div s (.consume p) = some s') :
    p ∈ s.pending ∧
    let s1 := decActual { s with pending := s.pending.erase p } p
    ((s.pc = .waitFb ∧ s' = (if s1.pc = .fault then s1 else afterWaitFb s1)) ∨
     (∃ k, s.pc = .limited k ∧ k ≠ 0 ∧ s' = (if s1.pc = .fault then s1 else { s1 with pc := .limited (k - 1) })) ∨
     (∃ e, s.pc = .drain e ∧ s.actual.allZero = false ∧ s' = s1)) := by
  simp only [step] at h
  split at h <;> try (cases h; done)
  · rename_i hpc
    split at h
    · rename_i hp
      refine ⟨hp, Or.inl ⟨hpc, ?_⟩⟩
      split at h <;> (cases h; simp_all)
    · cases h
  · rename_i ph p' rest hpc
    simp only [stepPoll] at h
    split at h
    · simp at h
    · split at h
      · simp at h
      · split at h <;> simp at h
  · rename_i k hpc
    split at h
    · cases h
    · rename_i hc
      have hk : k ≠ 0 := fun e => hc (Or.inl e)
      have hp : p ∈ s.pending := by
        by_cases hin : p ∈ s.pending
        · exact hin
        · exact absurd (Or.inr hin) hc
      refine ⟨hp, Or.inr (Or.inl ⟨k, hpc, hk, ?_⟩)⟩
      split at h <;> (cases h; simp_all)
  · rename_i e hpc
    split at h
    · cases h
    · rename_i hc
      have hp : p ∈ s.pending := by
        by_cases hin : p ∈ s.pending
        · exact hin
        · exact absurd (Or.inr hin) hc
      have hz : s.actual.allZero = false := by
        cases hzz : s.actual.allZero with
        | false => rfl
        | true => exact absurd (Or.inl hzz) hc
      cases h
      exact ⟨hp, Or.inr (Or.inr ⟨e, hpc, hz, rfl⟩)⟩

/-- `stopSeen` outside of `prioritize` -/
theorem step_stopSeen {div : DivFn} {s s' : St} (h : step div s .stopSeen = some s') :
    s.cfg.v1 = true ∧ s.stopped = true ∧
    ((s.pc = .waitFb ∧ s' = afterWaitFb s) ∨
     (∃ ph p rest, s.pc = .prio ph (p :: rest) ∧ s' = { s with pc := .prio ph rest }) ∨
     (∃ k, s.pc = .limited k ∧ s' = nextRound s) ∨
     (∃ e, s.pc = .drain e ∧ s' = { s with pc := .done e })) := by
  simp only [step] at h
  split at h <;> try (cases h; done)
  · rename_i hpc
    split at h
    · rename_i hc; cases h; exact ⟨hc.1, hc.2, Or.inl ⟨hpc, rfl⟩⟩
    · cases h
  · rename_i ph p rest hpc
    simp only [stepPoll] at h
    split at h
    · simp at h
    · split at h
      · simp at h
      · split at h
        · cases h
        · split at h
          · rename_i hc; cases h
            exact ⟨hc.1, hc.2, Or.inr (Or.inl ⟨ph, p, rest, hpc, rfl⟩)⟩
          · cases h
  · rename_i k hpc
    split at h
    · rename_i hc; cases h; exact ⟨hc.1, hc.2, Or.inr (Or.inr (Or.inl ⟨k, hpc, rfl⟩))⟩
    · cases h
  · rename_i e hpc
    split at h
    · rename_i hc; cases h; exact ⟨hc.1, hc.2, Or.inr (Or.inr (Or.inr ⟨e, hpc, rfl⟩))⟩
    · cases h

/-- the five poll actions: only enabled inside `prioritize` -/
theorem step_poll_pc {div : DivFn} {s s' : St} {a : Act}
    (ha : a = .pollItem ∨ a = .pollDrop ∨ a = .pollClosed ∨ a = .pollEmpty ∨ a = .skip)
    (h : step div s a = some s') :
    ∃ ph p rest, s.pc = .prio ph (p :: rest) ∧ stepPoll s ph p rest a = some s' := by
  rcases ha with rfl | rfl | rfl | rfl | rfl <;>
  · simp only [step] at h
    split at h <;> try (cases h; done)
    rename_i ph p rest hpc
    exact ⟨ph, p, rest, hpc, h⟩

/-- `skip` -/
theorem stepPoll_skip {s s' : St} {ph p : Nat} {rest : List Nat} (h : stepPoll s ph p rest .skip = some s') :
    s' = { s with pc := .prio ph rest } ∧
      (alGet s.inputs p = none ∨ ∃ inp, alGet s.inputs p = some inp ∧ (inp.drained = true ∨ s.tactic.get p = 0)) := by
  simp only [stepPoll] at h
  split at h
  · rename_i hin
    simp only [if_true, Option.some.injEq] at h
    exact ⟨h.symm, Or.inl hin⟩
  · rename_i inp hin
    split at h
    · rename_i hc
      simp only [if_true, Option.some.injEq] at h
      exact ⟨h.symm, Or.inr ⟨inp, hin, hc⟩⟩
    · split at h <;> simp at h

/-- `pollItem` -/
theorem stepPoll_item {s s' : St} {ph p : Nat} {rest : List Nat} (h : stepPoll s ph p rest .pollItem = some s') :
    ∃ inp ch x q, alGet s.inputs p = some inp ∧ inp.drained = false ∧ s.tactic.get p ≠ 0 ∧
      alGet s.chans inp.chan = some ch ∧ ch.queue = x :: q ∧
      s' = { s with
              chans := alSet s.chans inp.chan { ch with queue := q },
              taken := s.taken ++ [(inp.chan, x)],
              delivered := s.delivered ++ [(p, inp.chan, x)],
              tactic := s.tactic.set p (s.tactic.get p - 1),
              actual := s.actual.add p 1,
              inflight := s.inflight.add p 1,
              processed := s.processed + 1 } := by
  simp only [stepPoll] at h
  split at h
  · simp at h
  · rename_i inp hin
    split at h
    · simp at h
    · rename_i hc
      split at h
      · cases h
      · rename_i ch hch
        split at h
        · cases h
        · rename_i x q hq
          cases h
          refine ⟨inp, ch, x, q, hin, ?_, ?_, hch, hq, rfl⟩
          · cases hd : inp.drained with
            | false => rfl
            | true => exact absurd (Or.inl hd) hc
          · exact fun e => hc (Or.inr e)

/-- `pollDrop` (v1, stopped) -/
theorem stepPoll_drop {s s' : St} {ph p : Nat} {rest : List Nat} (h : stepPoll s ph p rest .pollDrop = some s') :
    ∃ inp ch x q, s.cfg.v1 = true ∧ s.stopped = true ∧ alGet s.inputs p = some inp ∧
      alGet s.chans inp.chan = some ch ∧ ch.queue = x :: q ∧
      s' = { s with
              chans := alSet s.chans inp.chan { ch with queue := q },
              taken := s.taken ++ [(inp.chan, x)],
              dropped := s.dropped ++ [(p, inp.chan, x)] } := by
  simp only [stepPoll] at h
  split at h
  · simp at h
  · rename_i inp hin
    split at h
    · simp at h
    · split at h
      · cases h
      · rename_i ch hch
        split at h
        · rename_i hv
          split at h
          · cases h
          · rename_i x q hq
            cases h
            exact ⟨inp, ch, x, q, hv.1, hv.2, hin, hch, hq, rfl⟩
        · cases h

/-- `pollClosed` -/
theorem stepPoll_closed {s s' : St} {ph p : Nat} {rest : List Nat} (h : stepPoll s ph p rest .pollClosed = some s') :
    ∃ inp ch, alGet s.inputs p = some inp ∧ alGet s.chans inp.chan = some ch ∧ ch.queue = [] ∧ ch.closed = true ∧
      s' = { s with inputs := alSet s.inputs p { inp with drained := true }, pc := .prio ph rest } := by
  simp only [stepPoll] at h
  split at h
  · simp at h
  · rename_i inp hin
    split at h
    · simp at h
    · split at h
      · cases h
      · rename_i ch hch
        split at h
        · rename_i hc; cases h; exact ⟨inp, ch, hin, hch, hc.1, hc.2, rfl⟩
        · cases h

/-- `pollEmpty` -/
theorem stepPoll_empty {s s' : St} {ph p : Nat} {rest : List Nat} (h : stepPoll s ph p rest .pollEmpty = some s') :
    s' = { s with pc := .prio ph rest } := by
  simp only [stepPoll] at h
  split at h
  · simp at h
  · split at h
    · simp at h
    · split at h
      · cases h
      · split at h
        · cases h; rfl
        · cases h

end Cqos
