import Cqos.Lemmas.DistKeys
import Cqos.Lemmas.TacticTotal
/-
  The inductive invariant of the scheduler machine behind C01 (capacity) and fault
  freedom, proved for EVERY divider function (faulty or not), every action, both versions.
-/
namespace Cqos

/-- accounting: the discipline's `actual` = true in-flight + releases issued but not yet
    consumed, per priority and in total -/
structure Core (actual inflight : Dist) (pending : List Nat) : Prop where
  perKey : ∀ p, actual.get p = inflight.get p + pending.count p
  tot : actual.total = inflight.total + pending.length
  nd : actual.NodupKeys

/-- what is occupied plus what is allotted never exceeds the handlers quantity -/
def capOk (H : Nat) (pc : Pc) (actual tactic : Dist) : Prop :=
  match pc with
  | .prio _ _ => actual.total + tactic.total ≤ H
  | _ => actual.total ≤ H

structure Inv (s : St) : Prop where
  core : Core s.actual s.inflight s.pending
  cap : capOk s.cfg.H s.pc s.actual s.tactic
  nofault : s.pc ≠ .fault

theorem capOk_weaken {H : Nat} {pc : Pc} {actual tactic : Dist} (h : capOk H pc actual tactic) :
    actual.total ≤ H := by
  unfold capOk at h
  split at h <;> omega

theorem capOk_of_le {H : Nat} {pc : Pc} {actual tactic : Dist} (h : actual.total ≤ H)
    (hpc : ∀ ph rest, pc ≠ .prio ph rest) : capOk H pc actual tactic := by
  unfold capOk
  split
  · rename_i ph rest; exact absurd rfl (hpc ph rest)
  · exact h

theorem core_consume {a i : Dist} {pend : List Nat} (h : Core a i pend) (p : Nat) (hp : p ∈ pend) :
    a.get p ≠ 0 ∧ Core (a.set p (a.get p - 1)) i (pend.erase p) ∧
      (a.set p (a.get p - 1)).total + 1 = a.total := by
  have hc : 0 < pend.count p := List.count_pos_iff.2 hp
  have hk := h.perKey p
  have hne : a.get p ≠ 0 := by omega
  have hts := Dist.total_set a p (a.get p - 1)
  refine ⟨hne, ⟨?_, ?_, Dist.nodupKeys_set _ _ _ h.nd⟩, by omega⟩
  · intro q
    rw [Dist.get_set]
    by_cases hq : p = q
    · subst hq
      simp only [if_true]
      rw [List.count_erase_self]; omega
    · simp only [hq, if_false]
      rw [List.count_erase_of_ne (fun e => hq e.symm)]
      exact h.perKey q
  · have hl := List.length_erase_of_mem hp
    have := h.tot
    have hpos : 0 < pend.length := List.length_pos_of_mem hp
    omega

theorem core_deliver {a i : Dist} {pend : List Nat} (h : Core a i pend) (p : Nat) :
    Core (a.add p 1) (i.add p 1) pend := by
  refine ⟨?_, ?_, Dist.nodupKeys_add _ _ _ h.nd⟩
  · intro q; rw [Dist.get_add, Dist.get_add, h.perKey q]; omega
  · rw [Dist.total_add, Dist.total_add, h.tot]; omega

theorem core_release {a i : Dist} {pend : List Nat} (h : Core a i pend) (p : Nat) (hp : i.get p ≠ 0) :
    Core a (i.set p (i.get p - 1)) (pend ++ [p]) := by
  have hts := Dist.total_set i p (i.get p - 1)
  refine ⟨?_, ?_, h.nd⟩
  · intro q
    rw [Dist.get_set, List.count_append, h.perKey q]
    by_cases hq : p = q
    · subst hq; simp; omega
    · have : ¬ q = p := fun e => hq e.symm
      simp [hq]
  · rw [h.tot]; simp; omega

theorem core_clear {a i : Dist} {pend : List Nat} (h : Core a i pend) (inputs : List (Nat × Input)) :
    Core (clearActual inputs a) i pend :=
  ⟨fun q => by rw [get_clearActual _ _ h.nd]; exact h.perKey q,
   by rw [total_clearActual]; exact h.tot,
   nodupKeys_clearActual _ _ h.nd⟩

/-- `decActual` after a pending release was taken: no fault, accounting kept, total −1.
    Stated for any state `t` whose pending list is `pend.erase p`. -/
theorem decActual_spec (t : St) (p : Nat) (pend : List Nat) (h : Core t.actual t.inflight pend)
    (hp : p ∈ pend) (htp : t.pending = pend.erase p) :
    (decActual t p).pc = t.pc ∧ (decActual t p).cfg = t.cfg ∧ (decActual t p).tactic = t.tactic ∧
    Core (decActual t p).actual (decActual t p).inflight (decActual t p).pending ∧
    (decActual t p).actual.total + 1 = t.actual.total := by
  obtain ⟨hne, hcore, htot⟩ := core_consume h p hp
  simp only [decActual, hne, if_false]
  exact ⟨trivial, trivial, trivial, by rw [htp]; exact hcore, htot⟩

theorem nextRound_pc (s : St) : (nextRound s).pc = .top ∨ (nextRound s).pc = .calc := by
  unfold nextRound
  by_cases h : s.cfg.v1 <;> simp [h]

end Cqos
