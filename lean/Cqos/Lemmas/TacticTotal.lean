import Cqos.Tactic
/-
  What the round calculus guarantees about the TOTAL of the allotment it installs —
  for an arbitrary (possibly faulty) divider, because `safeDivide` is part of the model.
-/
namespace Cqos

theorem safeDivide_ok_total (div : List Nat → Nat → Dist → Dist) (ps : List Nat) (d : Nat) (m t : Dist)
    (h : safeDivide div ps d m = (t, none)) : t.total = 0 ∨ t.total = m.total + d := by
  unfold safeDivide at h
  simp only at h
  split at h
  · rename_i h0; left; cases h; exact h0
  · split at h
    · cases h
    · split at h
      · cases h
      · rename_i h1 h2 h3
        right; cases h
        simp only [ne_eq, Decidable.not_not] at h3
        omega

theorem safeDivide_fst (div : List Nat → Nat → Dist → Dist) (ps : List Nat) (d : Nat) (m : Dist) :
    (safeDivide div ps d m).1 = div ps d m := by
  unfold safeDivide
  simp only
  split
  · rfl
  · split
    · rfl
    · split <;> rfl

theorem addUpLoop_total (actual strategic : Dist) (ps : List Nat) (t : Dist) (picked : Nat)
    (t' : Dist) (picked' : Nat) (h : addUpLoop actual strategic ps t picked = (t', some picked')) :
    t'.total + picked ≤ t.total + picked' := by
  induction ps generalizing t picked with
  | nil => simp [addUpLoop] at h; obtain ⟨rfl, rfl⟩ := h; omega
  | cons p ps ih =>
    simp only [addUpLoop] at h
    split at h
    · cases h
    · have := ih _ _ h
      have hs := Dist.total_set t p (strategic.get p - actual.get p)
      omega

theorem calcAddUp_total (prios : List Nat) (actual strategic tactic : Dist) (vacants : Nat) (t : Dist)
    (h : calcAddUp prios actual strategic tactic vacants = (t, true)) : t.total ≤ vacants := by
  unfold calcAddUp at h
  split at h
  · cases h
  · rename_i t0 picked heq
    simp only [Prod.mk.injEq, beq_iff_eq] at h
    obtain ⟨rfl, rfl⟩ := h
    have := addUpLoop_total _ _ _ _ _ _ _ heq
    simp at this
    omega

theorem calcBase_total (div : List Nat → Nat → Dist → Dist) (prios : List Nat)
    (actual strategic tactic : Dist) (vacants : Nat) (b : Bool)
    (h : (calcBase div prios actual strategic tactic vacants).2 = .ok b) :
    (calcBase div prios actual strategic tactic vacants).1.total ≤ vacants := by
  unfold calcBase at h ⊢
  simp only at h ⊢
  split at h
  · cases h
  · rename_i t heq
    simp only
    rcases safeDivide_ok_total _ _ _ _ _ heq with h0 | h1
    · omega
    · simp at h1; omega

theorem calcTacticWith_total (div : List Nat → Nat → Dist → Dist) (prios : List Nat)
    (actual strategic tactic : Dist) (vacants : Nat)
    (h : (calcTacticWith div prios actual strategic tactic vacants).verdict = .ok true) :
    (calcTacticWith div prios actual strategic tactic vacants).tactic.total ≤ vacants := by
  unfold calcTacticWith at h ⊢
  split
  · rename_i h0; simp [h0] at h
  · rename_i h0
    simp only [h0, if_false] at h
    split
    · rename_i t heq
      exact calcAddUp_total _ _ _ _ _ _ heq
    · rename_i t heq
      simp only [heq] at h
      exact calcBase_total _ _ _ _ _ _ _ h

theorem recalcTacticWith_total (div : DivFn) (i H : Nat) (prios : List Nat) (actual tactic : Dist) (b : Bool)
    (h : (recalcTacticWith div i H prios actual tactic).verdict = .ok b) :
    (recalcTacticWith div i H prios actual tactic).tactic.total ≤ tactic.total := by
  unfold recalcTacticWith at h ⊢
  simp only at h ⊢
  split
  · rename_i t e heq; rw [heq] at h; cases h
  · rename_i t heq
    rw [heq] at h
    simp only at h
    split
    · rename_i t2 e heq2; rw [heq2] at h; cases h
    · rename_i t2 heq2
      simp only
      rcases safeDivide_ok_total _ _ _ _ _ heq2 with h0 | h1
      · omega
      · simp at h1; omega

end Cqos
