def hello := "world"
