import Cqos.Divider
/-
  Model of `v2/priority/utils/utils.go` and `priority/utils.go` (the two differ only in
  how the divider is called: v2 passes a fresh empty map, v1 passes nil and uses the
  returned map; for a non-empty combination both give the same distribution).
-/
namespace Cqos

/-- a divider called on a non-nil map -/
abbrev Div := List Nat → Nat → Dist → Dist

/-- `genCombinations`: for each priority, every combination collected so far is
    extended by it (Go's `range` iterates over the slice as it was at loop entry),
    then the singleton is appended. -/
def genCombinations : List Nat → List (List Nat) → List (List Nat)
  | [], acc => acc
  | p :: ps, acc => genCombinations ps (acc ++ acc.map (· ++ [p]) ++ [[p]])

/-- every LISTED priority has a non-zero entry (`common.IsDistributionFilledFor`,
    introduced by the `fix:` commit for defect D2) -/
def filledFor (ps : List Nat) (m : Dist) : Bool := ps.all (fun p => m.get p != 0)

/-- `isNonFatalConfig` -/
def isNonFatalCombos (combos : List (List Nat)) (div : Div) (q : Nat) : Bool :=
  combos.all (fun c => filledFor c (div c q []))

/-- `IsNonFatalConfig` -/
def isNonFatal (ps : List Nat) (div : Div) (q : Nat) : Bool :=
  isNonFatalCombos (genCombinations (sortDesc ps) []) div q

/-- the check as it was before the repair of D2: only PRESENT keys are looked at -/
def isNonFatalUnfixed (ps : List Nat) (div : Div) (q : Nat) : Bool :=
  (genCombinations (sortDesc ps) []).all (fun c => (div c q []).filled)

/-- `PickUpMinNonFatalQuantity`-style loop: least `q ∈ [from, max]` with `pred q`, else 0.
    `fuel` is `max + 1 - from`. -/
def pickUpMinFrom (pred : Nat → Bool) (max : Nat) : Nat → Nat → Nat
  | 0, _ => 0
  | fuel + 1, q => if q ≤ max then (if pred q then q else pickUpMinFrom pred max fuel (q + 1)) else 0

def pickUpMin (pred : Nat → Bool) (max : Nat) : Nat := pickUpMinFrom pred max max 1

/-- `for q := max; q != 0; q--` -/
def pickUpMax (pred : Nat → Bool) : Nat → Nat
  | 0 => 0
  | q + 1 => if pred (q + 1) then q + 1 else pickUpMax pred q

/-- `isDistributionSuitable`, parametric in the comparison `exceeds dist ref p`
    ("the relative difference for priority p is above the limit") -/
def isDistSuitableWith (exceeds : Nat → Nat → Bool) (dist ref : Dist) : Bool :=
  ref.all (fun kv => kv.2 != 0 && !exceeds (dist.get kv.1) kv.2)

/-- the float computation of `isDistributionSuitable` -/
def floatExceeds (total refTotal : Nat) (limit : Float) (have_ refQ : Nat) : Bool :=
  let ratio := Float.ofNat refTotal / Float.ofNat total
  let diff := 1.0 - (ratio * Float.ofNat have_) / Float.ofNat refQ
  let diff := 100 * Float.abs diff
  diff > limit

/-- `isSuitableConfig` for an arbitrary comparison -/
def isSuitableCombosWith (exceeds : Nat → Nat → Bool)
    (combos : List (List Nat)) (div : Div) (q refTotal : Nat) : Bool :=
  combos.all (fun c =>
    let dist := div c q []
    filledFor c dist && isDistSuitableWith exceeds dist (div c refTotal []))

def referenceFactor : Nat := 1000

/-- `IsSuitableConfig` -/
def isSuitable (ps : List Nat) (div : Div) (q : Nat) (limit : Float) : Bool :=
  let sorted := sortDesc ps
  let refTotal := referenceFactor * sumPriorities sorted
  isSuitableCombosWith (floatExceeds q refTotal limit) (genCombinations sorted []) div q refTotal

end Cqos
