import Cqos.Join
import Cqos.Proto
/-
  Driver operations for the join / unite machine (white-box stepper of the batching
  disciplines).  Clock readings are synthesised: `tick e` means "the ticker fires when
  `e` nanoseconds have elapsed since `passAt`".
-/
namespace Cqos.DriverJoin
open Cqos.Proto

structure Session where
  st : JSt
  now : Nat
  printed : Nat     -- events already reported

def showPc : JPc → String
  | .run => "run" | .await _ => "await" | .done => "done"

def showEvents (evs : List JEvent) : String :=
  let emits := evs.filterMap fun e => match e with
    | .emit id d =>
      let cls := if id = 0 then "buf" else if id < 1000000 then "in" else "fresh"
      some s!"{cls}:{showList d}"
    | _ => none
  if emits.isEmpty then "-" else ";".intercalate emits

def reply (ss : Session) (pa : Bool := false) : String × Session :=
  let s := ss.st
  let news := s.events.drop ss.printed
  (s!"st={showPc s.pc} buf={showList s.buf} out={showEvents news} unrel={showBool s.unreleased} pa={showBool pa}",
   { ss with printed := s.events.length })

def start (toks : List String) : Option (String × Option Session) :=
  match toks with
  | ["jcfg", kind, ver, size, timeout, nocopy] => do
    let k ← (if kind == "join" then some JKind.join else if kind == "unite" then some JKind.unite else none)
    let cfg : JCfg := ⟨k, ← parseNat? size, ← parseNat? timeout, (← parseNat? nocopy) != 0, ver == "v1"⟩
    let (r, ss) := reply ⟨jinit cfg 0, 1, 0⟩
    some (r, some ss)
  | _ => none

def act (ss : Session) (a : JAct) (showPa : Bool := true) : Option (String × Session) :=
  match jstep ss.st a with
  | some st => some (reply { ss with st := st, now := ss.now + 1 } (showPa && st.passAt != ss.st.passAt))
  | none => none

/-- deterministic whole run (no ticker firing): feed every slice, release at once, close -/
def batchRun (cfg : JCfg) (inputs : List (List Nat)) : List (List Nat) :=
  let relNow (s : JSt) (t : Nat) : JSt :=
    match s.pc with
    | .await _ => (jstep s (.release t)).getD s
    | _ => s
  let feed := inputs.foldl (fun (acc : JSt × Nat) xs =>
      let s1 := (jstep acc.1 (.item acc.2 xs acc.2)).getD acc.1
      -- a unite `process` can be interrupted twice (pass, then forward)
      (relNow (relNow s1 acc.2) acc.2, acc.2 + 1)) (jinit cfg 0, 1)
  let s2 := (jstep feed.1 (.close feed.2)).getD feed.1
  (relNow s2 feed.2).out

def parseSlices? (s : String) : Option (List (List Nat)) :=
  if s == "-" then some [] else (s.splitOn ";").mapM (fun t => if t == "e" then some [] else parseList? t)

def showSlices (l : List (List Nat)) : String :=
  if l.isEmpty then "-" else ";".intercalate (l.map showList)

/-- `jbatch kind ver size nocopy slices` (stateless) -/
def batchOp (toks : List String) : Option String :=
  match toks with
  | ["jbatch", kind, ver, size, nocopy, slices] => do
    let k ← (if kind == "join" then some JKind.join else if kind == "unite" then some JKind.unite else none)
    let cfg : JCfg := ⟨k, ← parseNat? size, 0, (← parseNat? nocopy) != 0, ver == "v1"⟩
    some (showSlices (batchRun cfg (← parseSlices? slices)))
  | _ => none

def op (ss : Session) (toks : List String) : Option (String × Session) :=
  match toks with
  | ["item", id, xs] => do act ss (.item (← parseNat? id) (← parseList? xs) ss.now)
  | ["itemat", e, id, xs] => do act ss (.item (← parseNat? id) (← parseList? xs) (ss.st.passAt + (← parseNat? e)))
  | ["tick", e] => do act ss (.tick (ss.st.passAt + (← parseNat? e)))
  | ["close"] => act ss (.close ss.now)
  | ["release"] => act ss (.release ss.now)
  | ["stop"] =>
    -- while the discipline awaits the release, its blocked select reacts to the stop signal at
    -- once (sets `unreleased`, the deferred `resetPassAt` runs): whether that has happened when
    -- the harness looks is a race, so both sides print these two fields masked here; the
    -- following `stopseen` compares them
    (match ss.st.pc with
     | .await _ =>
       (match act ss .stop with
        | some (r, ss') =>
          let cut := (r.splitOn " unrel=").headD r
          some (cut ++ " unrel=* pa=*", ss')
        | none => none)
     | _ => act ss .stop)
  | ["stopseen"] => act ss (.stopSeen ss.now) false
  | _ => none

end Cqos.DriverJoin
