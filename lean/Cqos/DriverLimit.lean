import Cqos.Limit
import Cqos.Proto
/-
  Driver operations for the limit machine: `pass` runs one batch of the machine against a
  modelled input queue; clock readings are synthesised (they do not influence the replies).
-/
namespace Cqos.DriverLimit
open Cqos.Proto

structure Session where
  st : LSt
  queue : List Nat
  closed : Bool
  printed : Nat

def start (toks : List String) : Option (String × Option Session) :=
  match toks with
  | ["lcfg", q, i] => do
    let cfg : LCfg := ⟨← parseNat? q, ← parseNat? i⟩
    some ("ok", some ⟨linit cfg 0, [], false, 0⟩)
  | _ => none

/-- one `pass()`: start the batch, then receive/send until Quantity, or the input runs dry -/
def passLoop : Nat → Session → Session × Bool × Bool
  | 0, ss => (ss, false, false)
  | fuel + 1, ss =>
    match ss.st.pc with
    | .batch k _ =>
      if k = ss.st.cfg.quantity then (ss, false, false)
      else match ss.queue with
        | x :: q =>
          (match lstep ss.st (.recv x) with
           | some s1 => (match lstep s1 (.sent (s1.now + 1)) with
              | some s2 => passLoop fuel { ss with st := s2, queue := q }
              | none => (ss, false, true))
           | none => (ss, false, true))
        | [] =>
          if ss.closed then
            (match lstep ss.st .closed with
             | some s1 => ({ ss with st := s1 }, true, false)
             | none => (ss, false, true))
          else (ss, false, true)   -- would block
    | _ => (ss, false, true)

/-- `pass()` of one portion against the modelled input queue -/
def doPass (ss : Session) : Option (String × Session) :=
    if ss.queue.length < ss.st.cfg.quantity ∧ !ss.closed then some ("blocked", ss) else
    match ss.st.pc with
    | .idle =>
      (match lstep ss.st (.start (ss.st.now + 1)) with
       | none => none
       | some s1 =>
         let (ss', stop, blocked) := passLoop 1000000 { ss with st := s1 }
         let fwd := (ss'.st.sent.drop ss.printed).map (·.1)
         let status := if blocked then "blocked" else if stop then "stop=1" else "stop=0"
         -- leave the batch: the duration is read, the sleep is requested and ends
         let st2 := match lstep ss'.st (.batchEnd (ss'.st.now + 1)) with
           | some s2 => (match s2.pc with
              | .sleeping u => (lstep s2 (.wake (max u s2.now))).getD s2
              | _ => s2)
           | none => ss'.st
         some (s!"{status} fwd={showList fwd} slept={st2.sleeps.length}",
               { ss' with st := st2, printed := ss'.st.sent.length }))
    | _ => none

def op (ss : Session) (toks : List String) : Option (String × Session) :=
  match toks with
  | ["feed", xs] => do
    let xs ← parseList? xs
    if ss.closed then none else some ("ok", { ss with queue := ss.queue ++ xs })
  | ["closein"] => some ("ok", { ss with closed := true })
  | ["pass"] => doPass ss
  | ["transferlate", v] => do
    -- the last element of the portion arrives while `transfer()` is already waiting for it
    let x ← parseNat? v
    if ss.closed then none else doPass { ss with queue := ss.queue ++ [x] }
  | ["delay", _d] => some ("ok", ss)
  | _ => none

end Cqos.DriverLimit
