/-
  The limit discipline (`v2/limit/limit.go`) as a step machine.  One goroutine:
  `loop { transfer: startedAt := now; pass (≤ Quantity receives + sends); duration; delay }`.

  Actions that read the clock in Go carry the reading.  The two facts assumed about the
  runtime are ENABLING CONDITIONS of the machine (so every run of the machine satisfies
  them, and they are listed in the trusted base as `ClockOK`):
    * readings never decrease (`now ≤ t`);
    * `time.Sleep(d)` returns no earlier than `d` after it was called (`wake t` needs
      `until ≤ t`).
-/
namespace Cqos

structure LCfg where
  quantity : Nat      -- ≥ 1
  interval : Nat      -- > 0 (ns)
  deriving Repr, DecidableEq

inductive LPc
  | idle                                   -- top of `loop`
  | batch (k : Nat) (start : Nat)          -- inside `pass`, k elements forwarded so far
  | holding (k : Nat) (start : Nat) (x : Nat)  -- an element was received, its send is pending
  | sleeping (until_ : Nat)                -- inside `time.Sleep`
  | done                                   -- `main` returned: output closed
  deriving Repr, DecidableEq

structure LSt where
  cfg : LCfg
  pc : LPc
  now : Nat
  t0 : Nat                       -- clock reading at creation
  received : List Nat            -- elements taken from the input, in order
  sent : List (Nat × Nat)        -- (element, clock reading when its send completed)
  starts : List Nat              -- clock reading at the start of each batch (`startedAt`)
  sleeps : List Int              -- every requested sleep `Interval - duration`
  deriving Repr

inductive LAct
  | start (t : Nat)       -- `startedAt := time.Now()`
  | recv (x : Nat)        -- `item, opened := <-input` with opened
  | closed                -- ... with !opened (input closed and drained)
  | sent (t : Nat)        -- `output <- item` completed
  | batchEnd (t : Nat)    -- `time.Since(startedAt)` after Quantity elements
  | wake (t : Nat)        -- `time.Sleep` returns
  deriving Repr, DecidableEq

def linit (cfg : LCfg) (t0 : Nat) : LSt :=
  { cfg := cfg, pc := .idle, now := t0, t0 := t0, received := [], sent := [], starts := [], sleeps := [] }

def lstep (s : LSt) (a : LAct) : Option LSt :=
  match s.pc, a with
  | .idle, .start t =>
    if s.now ≤ t then some { s with pc := .batch 0 t, now := t, starts := s.starts ++ [t] } else none
  | .batch k st, .recv x =>
    if k < s.cfg.quantity then some { s with pc := .holding k st x, received := s.received ++ [x] } else none
  | .batch k _, .closed =>
    if k < s.cfg.quantity then some { s with pc := .done } else none
  | .holding k st x, .sent t =>
    if s.now ≤ t then some { s with pc := .batch (k + 1) st, now := t, sent := s.sent ++ [(x, t)] } else none
  | .batch k st, .batchEnd t =>
    if k = s.cfg.quantity ∧ s.now ≤ t then
      -- duration = t - st; remainder = Interval - duration (may be negative: no sleep);
      -- Sleep returns no earlier than `t + remainder`, i.e. than `st + Interval`
      some { s with pc := .sleeping (max t (st + s.cfg.interval)), now := t,
                    sleeps := s.sleeps ++ [(s.cfg.interval : Int) - ((t : Int) - (st : Int))] }
    else none
  | .sleeping u, .wake t =>
    if u ≤ t ∧ s.now ≤ t then some { s with pc := .idle, now := t } else none
  | _, _ => none

def lrun (s : LSt) : List LAct → Option LSt
  | [] => some s
  | a :: as => match lstep s a with
    | some s' => lrun s' as
    | none => none

end Cqos
