import Cqos.Dist
import Cqos.Divider
import Cqos.Rate
import Cqos.Utils
import Cqos.Tactic
import Cqos.Proto
import Cqos.DriverPure
import Cqos.Props.C13
