-- This module serves as the root of the `Cqos` library.
-- Import modules here that should be built as part of the library.
import Cqos.Basic
