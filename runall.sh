#!/bin/bash
# usage: ./runall.sh [quick|thorough]  — runs every check in MANIFEST order, prints one line each
cd "$(dirname "$0")"
tier=${1:-quick}
rc=0
for id in $(jq -r '.checks[].property_id' MANIFEST.json); do
  out=$(timeout ${RUNALL_TIMEOUT:-3600} ./check $id --tier $tier 2>&1); r=$?
  echo "$out" | grep -E "^(C[0-9]+ tier|VIOLATION|KNOWN-FINDING)" | cut -c1-260
  [ $r -ne 0 ] && rc=1 && echo "$out" | grep -E "failing input|disagreement|broken" | head -3 | cut -c1-400
done
exit $rc
