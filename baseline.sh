#!/bin/bash
# Runs the repository's own test-suite with the `verif` guard OFF and compares the
# outcome with the pinned baseline (/root/.vp/BASELINE.json: 403 stable tests).
# Exit 0 iff every baseline test passed.
export GOPROXY=off GOSUMDB=off GOTOOLCHAIN=local
OUT=$(mktemp -d /var/tmp/cqos-baseline.XXXXXX)
trap 'rm -rf "$OUT"' EXIT
for m in . ./v2; do
  (cd /repo/$m && go test -mod=mod -json -vet=off -count=1 -timeout 25m ./... ) >> "$OUT/gotest.json" 2>>"$OUT/stderr"
done
python3 - "$OUT/gotest.json" <<'EOF'
import json,sys
res={}
for line in open(sys.argv[1]):
    line=line.strip()
    if not line.startswith('{'): continue
    try: e=json.loads(line)
    except Exception: continue
    if e.get('Test') and e.get('Action') in ('pass','fail','skip'):
        res[e['Package']+'::'+e['Test']]=e['Action']
base=json.load(open('/root/.vp/BASELINE.json'))['stable_pass']
bad=[t for t in base if res.get(t)!='pass']
print(f"baseline tests: {len(base)} passed: {len(base)-len(bad)} not-passed: {len(bad)}")
for t in bad[:50]: print("  NOT PASSED:",t,res.get(t))
sys.exit(1 if bad else 0)
EOF
