"""
Per-property wiring of /verif/check: which Lean modules and theorems are the proof
obligations, which correspondence families tie the model to /repo, which monitor
failures count as violations of the property.
"""

COMMON_TRUSTED = [
    'Lean 4.33 kernel (thorough tier: re-checked by leanchecker)',
    'axioms: at most propext, Classical.choice, Quot.sound (audited by #print axioms on every run)',
    'hand-written Lean model; tied to /repo by the correspondence check (Go harness + verif hooks + cqosmodel line protocol)',
    'Lean compiler/runtime executing the model driver (cqosmodel)',
]

PURE_NOTE = ('the implementation is called in-process on every generated input; its reply line is '
             'compared with the model\'s reply to the same request; the property predicate is also '
             'evaluated directly on the implementation\'s result (monitor)')

NOT_APPLICABLE = {}

PROPS = {
    'C13': {
        'lean_targets': ['Cqos.Props.C13'],
        'theorems': ['Cqos.C13.c13_valid', 'Cqos.C13.c13_equiv', 'Cqos.C13.c13_error_iff',
                     'Cqos.C13.c13_optimize_flatten', 'Cqos.C13.c13_idempotent', 'Cqos.C13.c13_flatten_one', 'Cqos.C13.c13_unfixed_counterexample'],
        'runs': [{'cmd': 'pure', 'args': ['-family', 'c13']}],
        'monitor_prefix': ['C13'],
        'level': 'proof',
        'level_text': ('Lean theorems (validity, minimum, minimality, equivalence within rounding, exact error '
                       'conditions) about the model of Recalculate for ALL integers, hence the full int64/uint64 '
                       'ranges; the model is tied to the Go function by exhaustive small-scope + boundary + 64-bit edge '
                       'differential runs on every check'),
        'level_note': ('trusted: Lean kernel, the correspondence (differential testing of single calls, ~270k/quick), '
                       'math/big modelled as exact arithmetic'),
        'rule': ('Recalculate/Optimize/Flatten/IsValid on: every (I,Q,min) in a small box (exhaustive), '
                 'the boundary family I = Q*min + r around the branch condition, 64-bit edges incl. the '
                 'quotient around 2^64, invalid inputs, log-uniform random; non-trivial = valid rate and '
                 'min >= 0; distinct = distinct request line. ' + PURE_NOTE),
        'trusted_base': ['math/big modelled as exact Nat arithmetic; time.Duration as Int with the int64 range not enforced (theorems hold for all Int)'],
        'assumptions': ['model = code is established by differential testing of single calls, not by proof'],
    },
    'C14': {
        'lean_targets': ['Cqos.Props.C14'],
        'theorems': ['Cqos.C14.c14_fair_total', 'Cqos.C14.c14_fair_frame', 'Cqos.C14.c14_fair_shape', 'Cqos.C14.c14_fair_mono',
                     'Cqos.C14.c14_rate_total', 'Cqos.C14.c14_rate_frame', 'Cqos.C14.c14_rate_incs',
                     'Cqos.C14.c14_rate_mono', 'Cqos.C14.c14_rate_near', 'Cqos.C14.near_of_nearHalf',
                     'Cqos.C14.rateIncs_none_near', 'Cqos.C14.c14_v1_eq_v2'],
        'runs': [{'cmd': 'pure', 'args': ['-family', 'c14']}],
        'monitor_prefix': ['C14'],
        'level': 'proof',
        'level_text': ('Lean theorems for every priority list, dividend and initial map: Fair and Rate add exactly the '
                       'dividend and touch no unlisted entry (Rate: for ANY rounding function, so independent of floating '
                       'point), Fair\'s increments are floor(d/n) plus one for the first d mod n, Rate\'s increments are '
                       'non-increasing when the rounded parts are, and every increment is within n/2 of the exact proportional '
                       'share d*p/S whenever each rounded part is within 1/2 of it (c14_rate_near: leftover to the first priority '
                       'and the truncating return both covered), v1 = v2; the model is tied to all four Go functions by '
                       'exhaustive small-scope + tie/truncation/near-equal/large-magnitude differential runs'),
        'level_note': ('partial in one respect: the two facts about the IEEE rounding that the order and n/2 theorems take as hypotheses '
                       '(rounded parts non-increasing along the list; each within 1/2 of the exact share) are not kernel-proved '
                       '(Float is opaque); they are evaluated on every executed call by the model driver (a failure shows as '
                       'float-hypothesis-fails = disagreement) and the n/2 bound itself is monitored on the implementation\'s result'),
        'rule': ('Fair/Rate/FairDivider/RateDivider on: every sorted duplicate-free list over a small alphabet x dividend '
                 'range (exhaustive), nil/pre-filled maps, exact-tie dividends, truncation (near-equal large priorities), '
                 'dividends around multiples of sum and of n, skewed lists, random magnitudes up to 2^40 / 2^32; '
                 'non-trivial = at least two priorities and a positive dividend; distinct = distinct request line. ' + PURE_NOTE),
        'trusted_base': ['IEEE-754 double arithmetic of Rate is executed (Lean Float = C double), not reasoned about'],
        'assumptions': ['priorities sum < 2^53 and totals < 2^64 (no float/uint overflow)'],
    },
    'C18': {
        'lean_targets': ['Cqos.Props.C18'],
        'theorems': ['Cqos.C18.c18_comb', 'Cqos.C18.c18_comb_count', 'Cqos.C18.c18_nonfatal_iff',
                     'Cqos.C18.c18_unfixed_counterexample', 'Cqos.C18.c18_suitable_imp', 'Cqos.C18.c18_suitable_mono',
                     'Cqos.C18.c18_pick_min', 'Cqos.C18.c18_pick_max', 'Cqos.C18.c18_accepted',
                     'Cqos.C18.c18_accepted_fair', 'Cqos.C18.c18_accepted_rate', 'Cqos.C18.c18_fair_nonfatal_iff', 'Cqos.C18.c18_fair_pick_min', 'Cqos.C18.c18_fair_pick_max'],
        'runs': [{'cmd': 'pure', 'args': ['-family', 'c18']}, {'cmd': 'blackbox', 'args': ['-scenario', 'utils']}],
        'monitor_prefix': ['C18'],
        'level': 'proof',
        'level_text': ('Lean theorems for every priority list, ANY divider and every q/max: genCombinations = the non-empty '
                       'order-preserving sub-lists (2^n-1 of them), IsNonFatalConfig true iff every member of every such '
                       'sub-list gets >= 1, suitable => non-fatal, monotone in the limit, PickUpMin/Max = least/greatest '
                       'q in [1,max] or 0, non-fatal => prepare accepts (Fair, Rate via the C14 conservation theorems); '
                       'the model is tied to both modules\' helpers and to v2 prepare by differential runs'),
        'level_note': ('the float comparison inside isDistributionSuitable is a parameter of the theorems (monotonicity is '
                       'stated for any comparison that is monotone in the limit); the driver executes the IEEE computation'),
        'rule': ('IsNonFatalConfig / IsSuitableConfig / PickUp* (v1 and v2), genCombinations, prepare on: every priority set '
                 'over a small alphabet x q range (exhaustive, shuffled presentation), near-equal large priorities '
                 '(Rate truncation family), the D2 witness, random sets; non-trivial = at least two priorities and q > 0; '
                 'distinct = distinct request line. ' + PURE_NOTE),
        'trusted_base': ['IEEE-754 arithmetic of isDistributionSuitable is executed, not reasoned about'],
        'assumptions': ['max < 2^64-1 (the Go loop counter does not wrap)'],
    },
    'C01': {
        'lean_targets': ['Cqos.Props.C01', 'Cqos.Props.C01s', 'Cqos.Facts.GluePrioV2', 'Cqos.Facts.GluePrioV1'],
        'facts': True,
        'theorems': ['Cqos.C01.step_inv', 'Cqos.C01.run_inv', 'Cqos.C01.c01_capacity', 'Cqos.C01.c01_v2',
                     'Cqos.C01.c01_v1', 'Cqos.C01.c01_simple', 'Cqos.C01.drive_is_run', 'Cqos.Facts.gluePrioV2', 'Cqos.Facts.gluePrioV1', 'Cqos.C01.step_delivered_inflight', 'Cqos.C01.sstep_inv', 'Cqos.C01.c01_simple_handlers'],
        'runs': [{'cmd': 'stepper', 'args': ['-family', 'mixed']},
                 {'cmd': 'stepper', 'args': ['-family', 'faulty']},
                 {'cmd': 'stepper', 'args': ['-family', 'dynamic']},
                 {'cmd': 'stepper', 'args': ['-family', 'saturated']},
                 {'cmd': 'blackbox', 'args': ['-scenario', 'prio2,simple2,prio1,simple1']}],
        'monitor_prefix': ['C01'],
        'level': 'proof',
        'level_text': ('Lean theorem by induction over ARBITRARY action lists of the scheduler machine (v1 and v2 in one '
                       'machine; arrivals, closes, releases, Stop, GracefulStop, AddInput/RemoveInput and every select '
                       'choice are actions): in-flight = delivered - release issued never exceeds H and no unsigned '
                       'subtraction wraps, for EVERY divider function (faulty ones included, safeDivide is modelled) and '
                       'every strategic distribution. Simplified disciplines: a layered machine (handler goroutines = receive, Handle, '
                       'Release; releases are issued only by a handler whose Handle returned) in which the number of running Handle '
                       'calls never exceeds H (c01_simple_handlers), the handler order being read off the regenerated glue skeleton. '
                       'The machine is tied to the real disciplines by the white-box '
                       'stepper: real unexported methods called one at a time on generated scripts, state projection '
                       'compared with the machine after every operation'),
        'level_note': ('trusted: correspondence by differential stepping (exact equality of actual/tactic/strategic/'
                       'priorities/drained/output after each op), the hook constructor duplicating New\'s struct literal, '
                       'Go channels as FIFO queues; unbuffered inputs only in their deterministic states (empty/closed)'),
        'rule': ('operation scripts (arrive/close/release, calc/fb1/prio/recalc/base/glf/wza, v1: top add/remove/fb/none, stop) '
                 'generated per family from {Fair,Rate} x {consecutive, skewed, near-equal, random priorities} x {H = n, small, '
                 'multiple, random} x buffered/unbuffered inputs, release groupings none/one/some/all, fault-injecting dividers; '
                 'every op is one compared case; distinct = distinct (script prefix) is not measured, distinct request lines are counted'),
        'trusted_base': ['verif hook steppers (construct the real Discipline without starting main)'],
        'assumptions': ['handlers release only what they hold (API contract)'],
    },
    'C03': {
        'lean_targets': ['Cqos.Props.C03', 'Cqos.Facts.GlueJoin', 'Cqos.Facts.CtorsJoin'],
        'facts': True,
        'theorems': ['Cqos.C03.jstep_inv', 'Cqos.C03.jrun_inv', 'Cqos.C03.c03_concat', 'Cqos.C03.c03_prefix',
                     'Cqos.C03.c03_nonempty', 'Cqos.C03.c03_join_le', 'Cqos.C03.c03_unite_big', 'Cqos.Facts.glueJoin', 'Cqos.Facts.ctorsJoin'],
        'runs': [{'cmd': 'jstepper', 'args': ['-family', 'mixed']},
                 {'cmd': 'blackbox', 'args': ['-scenario', 'join,joinshared']}],
        'monitor_prefix': ['C03'],
        'level': 'proof',
        'level_text': ('Lean theorems by induction over ARBITRARY action lists of the join/unite machine (items or slices of '
                       'any lengths, ticker firings at any reading, releases, close, v1 Stop): the emitted slices always '
                       'concatenate to a prefix of the accepted input and to exactly the input once the discipline has '
                       'terminated after close; no emitted slice is empty; join slices have at most JoinSize elements; a '
                       'unite slice longer than JoinSize is one whole oversize input slice. The machine is tied to the real '
                       'v2 join, v2 unite and v1 join by the white-box stepper (real process/pass/isTimeouted called one at a '
                       'time; buffer, emitted slices with their memory identity class and control state compared after each op)'),
        'level_note': ('trusted: the stepper correspondence; the select loops (loop/loopUntimeouted, deferred pass) are covered '
                       'by the black-box runs and the regenerated skeleton facts, not by the stepper'),
        'rule': ('scripts of item/tick/close/release/stop over {join v1, join v2, unite v2} x copy/no-copy x timed/untimed, '
                 'slice lengths 0, 1, <JoinSize, =JoinSize, >JoinSize; ticks at half and twice the timeout; every op is one '
                 'compared case'),
        'trusted_base': ['verif hook steppers for join/unite (construct the real Discipline without starting main)'],
        'assumptions': [],
    },
    'C08': {
        'lean_targets': ['Cqos.Props.C08', 'Cqos.Facts.C08', 'Cqos.Facts.GlueJoin'],
        'facts': True,
        'theorems': ['Cqos.C08.e_step', 'Cqos.C08.e_run', 'Cqos.C08.c08_copy', 'Cqos.C08.c08_nocopy',
                     'Cqos.C08.c08_await_only_release', 'Cqos.C08.c08_v1_frozen', 'Cqos.C08.c08_cap', 'Cqos.Facts.c08_release_unbuffered', 'Cqos.Facts.glueJoin'],
        'runs': [{'cmd': 'jstepper', 'args': ['-family', 'mixed']},
                 {'cmd': 'blackbox', 'args': ['-scenario', 'join']}],
        'monitor_prefix': ['C08'],
        'level': 'proof',
        'level_text': ('Lean theorems on the ownership model of the batching machine (memory identities: buffer = 0, inputs < 10^6, '
                       'clones fresh; event log of emissions, buffer writes and releases), for every action list: copy mode - every '
                       'emitted slice has a fresh, pairwise distinct identity, so no write (all target the buffer) and no later output '
                       'touches it; no-copy - between an emission and its release the log has no write and no emission and only the '
                       'release (v1: Stop) is enabled; v1 - after unreleased/done the log never grows; the buffer never exceeds its '
                       'capacity. The stepper compares the memory identity class of every real output slice (unsafe.SliceData against '
                       'the internal buffer and the inputs) with the model, and holds/scribbles retained slices'),
        'level_note': 'partial: Go memory and append semantics are modelled by identities and a capacity bound, not verified; ' + 'trusted: the stepper correspondence for process/pass/isTimeouted; the select loops and the deferred pass are covered by black-box runs and the regenerated skeleton facts',
        'rule': 'as C03; additionally every output slice is classified buf/in/fresh by pointer identity and retained to the end',
        'trusted_base': ['unsafe.SliceData pointer comparison in the harness'],
        'assumptions': ['Go append within capacity writes in place; slices.Clone returns fresh memory'],
    },
    'C09': {
        'lean_targets': ['Cqos.Props.C09', 'Cqos.Props.C09u', 'Cqos.Props.C09t', 'Cqos.Facts.GlueJoin', 'Cqos.Facts.CtorsJoin'],
        'facts': True,
        'theorems': ['Cqos.C09.join_step_emits', 'Cqos.C09.flags_mono', 'Cqos.C09.exact_step', 'Cqos.C09.c09_join_exact',
                     'Cqos.C09.c09_untimed_no_tick', 'Cqos.C09.c09_unite_maximal', 'Cqos.C09.c09_tick_needs_timeout',
                     'Cqos.C09.c09_passAt_at_emission', 'Cqos.C09.c09_passAt_at_release', 'Cqos.C09.unite_ref_step',
                     'Cqos.C09.c09_unite_greedy', 'Cqos.C09.c09_unite_greedy_nocopy', 'Cqos.C09.uniteRef_maximal',
                     'Cqos.C09.e_step', 'Cqos.C09.e_run', 'Cqos.C09.c09_tick_after_timeout', 'Cqos.Facts.glueJoin', 'Cqos.Facts.ctorsJoin'],
        'runs': [{'cmd': 'jstepper', 'args': ['-family', 'untimed']}, {'cmd': 'jstepper', 'args': ['-family', 'mixed']},
                 {'cmd': 'blackbox', 'args': ['-scenario', 'join']}],
        'monitor_prefix': ['C09'],
        'level': 'proof',
        'level_text': ('Lean theorems: join - for every action list, every slice not emitted by a ticker firing, the closing of the '
                       'input or Stop has exactly JoinSize elements (so without a timeout the batching is the unique greedy one); '
                       'unite (no timeout, copy and no-copy mode) - after ANY run the emitted slices and the buffer are exactly the greedy batching '
                       '(a plain fold, uniteRef) of the input slices consumed so far, the rest of the buffer being the last slice at '
                       'termination, and every slice that fold emits is maximal: it reached JoinSize or is the buffer which the '
                       'following input slice did not fit (c09_unite_greedy, uniteRef_maximal); timed - in every run with a monotone clock a ticker firing that cuts a slice short at reading t has '
                       'e + Timeout <= t for the reading e of EVERY earlier emission and t0 + Timeout <= t (c09_tick_after_timeout: all '
                       'three disciplines, copy and no-copy). Tied by the stepper (ticks at half / twice '
                       'the timeout) and an independent greedy-batching monitor'),
        'level_note': 'partial: clock monotonicity is assumed; in no-copy mode the relation to the fold is stated per control point (what is emitted but not yet released, an interrupted process call); ' + 'trusted: the stepper correspondence for process/pass/isTimeouted; the select loops and the deferred pass are covered by black-box runs and the regenerated skeleton facts',
        'rule': 'as C03, plus an untimed family; the monitor recomputes the greedy batching independently',
        'trusted_base': [],
        'assumptions': ['monotone clock (time.Now / time.Since)'],
    },
    'C10': {
        'lean_targets': ['Cqos.Props.C10', 'Cqos.Props.C10r', 'Cqos.Facts.C10', 'Cqos.Facts.GlueJoin', 'Cqos.Facts.CtorsJoin'],
        'facts': True,
        'theorems': ['Cqos.C10.c10_interval_v2', 'Cqos.C10.c10_interval_v2_nonpositive', 'Cqos.C10.c10_interval_v2_errors',
                     'Cqos.C10.c10_interval_v1', 'Cqos.C10.f_step', 'Cqos.C10.f_run', 'Cqos.C10.c10_passAt_le_oldest',
                     'Cqos.C10.c10_flush', 'Cqos.C10.k_step', 'Cqos.C10.r_run', 'Cqos.C10.c10_residence', 'Cqos.C10.c10_residence_div',
                     'Cqos.Facts.c10_one_ticker', 'Cqos.Facts.glueJoin', 'Cqos.Facts.ctorsJoin'],
        'runs': [{'cmd': 'pure', 'args': ['-family', 'c10']}, {'cmd': 'jstepper', 'args': ['-family', 'mixed']},
                 {'cmd': 'blackbox', 'args': ['-scenario', 'join,joinshared']}],
        'monitor_prefix': ['C10'],
        'level': 'proof',
        'level_text': ('Lean theorems: the interrupt interval tau satisfies 1 <= tau, tau*floor(100/inacc) <= Timeout, '
                       '1 <= floor(100/inacc) <= 100 (v1: tau >= 10ms) and the errors are exactly the code\'s; for every action list '
                       'with non-decreasing clock readings passAt is never later than the acceptance of the oldest buffered element '
                       '(the timer is not reset per element), hence a ticker firing processed at a reading >= firstAt + Timeout '
                       'flushes the buffer; composed over runs (c10_residence): along every run in which a ticker firing is processed at '
                       'least every tau, the oldest element inside the discipline was accepted less than Timeout + tau ago, i.e. less than '
                       'Timeout*(1+1/floor(100/inacc)) (c10_residence_div), for every arrival pattern, JoinSize, copy/no-copy, join/unite/v1. '
                       'calcInterruptInterval is tied by a full grid over inaccuracies 0..300 x boundary timeouts'),
        'level_note': ('partial: the bound is proved under the hypothesis that a ticker firing is processed at least every tau (the ticker '
                       'fires, the goroutine is scheduled, the consumer is ready) - Go runtime facts, the hypothesis denseRun of c10_residence; ' + 'trusted: the stepper correspondence for process/pass/isTimeouted; the select loops and the deferred pass are covered by black-box runs and the regenerated skeleton facts'),
        'rule': 'calcInterruptInterval (v2 join, v2 unite, v1 join) over all inaccuracies 0..300 x boundary timeouts + random; stepper tick scripts',
        'trusted_base': [],
        'assumptions': ['ticker fires every interruptInterval; scheduling latency bounded; monotone clock'],
    },
    'C11': {
        'lean_targets': ['Cqos.Props.C11', 'Cqos.Facts.GlueJoin'],
        'facts': True,
        'theorems': ['Cqos.C11.g_step', 'Cqos.C11.g_run', 'Cqos.C11.c11_whole', 'Cqos.C11.c11_always', 'Cqos.C11.c11_oversize', 'Cqos.Facts.glueJoin'],
        'runs': [{'cmd': 'jstepper', 'args': ['-family', 'mixed']}, {'cmd': 'blackbox', 'args': ['-scenario', 'join']}],
        'monitor_prefix': ['C11'],
        'level': 'proof',
        'level_text': ('Lean theorem for every action list of the unite machine: the output slices are exactly the concatenations of '
                       'consecutive groups of WHOLE accepted input slices (empty ones contribute nothing), at every moment and at '
                       'termination; an input slice of at least JoinSize elements is emitted as a slice of its own after the buffer. '
                       'Tied by the stepper with slice lengths 0, 1, <, =, > JoinSize and an independent whole-slice monitor'),
        'level_note': 'trusted: the stepper correspondence for process/pass/isTimeouted; the select loops and the deferred pass are covered by black-box runs and the regenerated skeleton facts',
        'rule': 'as C03',
        'trusted_base': [],
        'assumptions': [],
    },
    'C04': {
        'lean_targets': ['Cqos.Props.C04', 'Cqos.Facts.GlueLimit', 'Cqos.Facts.CtorsLimit', 'Cqos.Props.C04r', 'Cqos.Props.C04p'],
        'facts': True,
        'theorems': ['Cqos.C04.binv_step', 'Cqos.C04.c04_receive_window_prompt', 'Cqos.C04.c04_receive_side_window_fails', 'Cqos.C04.tstep_inv', 'Cqos.C04.trun_inv', 'Cqos.C04.c04_item_time', 'Cqos.C04.c04_cumulative',
                     'Cqos.C04.c04_batches', 'Cqos.C04.wstep_inv', 'Cqos.C04.c04_window', 'Cqos.C04.c04_window_count',
                     'Cqos.C04.c04_sent_sorted', 'Cqos.Facts.glueLimit', 'Cqos.Facts.ctorsLimit'],
        'runs': [{'cmd': 'lstepper', 'args': ['-family', 'mixed']},
                 {'cmd': 'blackbox', 'args': ['-scenario', 'limit']}],
        'monitor_prefix': ['C04'],
        'level': 'proof',
        'level_text': ('Lean theorems on the limit machine for every action list (every arrival pattern and consumer speed): the '
                       'i-th element leaves no earlier than t0 + floor(i/Quantity)*Interval, hence at most '
                       'Quantity*(floor((T-t0)/Interval)+1) elements have left by reading T; a batch forwards at most Quantity '
                       'elements; batch starts are Interval apart and element i leaves between the starts of batches floor(i/Q) and '
                       'floor(i/Q)+1, hence for every a and W at most Quantity*(floor(W/Interval)+2) elements left at a reading in '
                       '[a, a+W] (c04_window_count); composed with the FIFO output buffer (any capacity) and a consumer that received every element within delta of its send, at most Quantity*(floor((W+delta)/Interval)+2) elements are RECEIVED in any window of length W (c04_receive_window_prompt). The runtime assumptions (monotone clock; time.Sleep(d) returns no earlier than d) are enabling '
                       'conditions of the machine. pass() and delay() are tied by the stepper (delay measured never to return early)'),
        'level_note': ('partial: ClockOK is assumed of the Go runtime; the theorems speak of the completion of the discipline\'s send. At the '
                       'RECEIVING side the window clause fails for a consumer that pauses (the output buffer, capacity 1+cap(input), is received '
                       'at once): known finding F2, exhibited on every run by the black-box pattern paused-consumer; loop/transfer glue is covered by black-box runs and facts'),
        'rule': 'scripts of feed/closein/pass/delay over Quantity 1..100, Interval 0.2..2 ms, element counts 0, <Q, =Q, multiples, random',
        'trusted_base': ['verif hook stepper for limit'],
        'assumptions': ['ClockOK: monotone clock, Sleep(d) lasts at least d'],
    },
    'C12': {
        'lean_targets': ['Cqos.Props.C12', 'Cqos.Props.C12u', 'Cqos.Facts.GlueLimit', 'Cqos.Facts.CtorsLimit'],
        'facts': True,
        'theorems': ['Cqos.C12.lstep_inv', 'Cqos.C12.lrun_inv', 'Cqos.C12.c12_passthrough', 'Cqos.C12.c12_close',
                     'Cqos.C12.c12_no_pause_small', 'Cqos.C12.c12_sleep_count', 'Cqos.C12.u_step', 'Cqos.C12.c12_item_upper',
                     'Cqos.C12.c12_item_window', 'Cqos.Facts.glueLimit', 'Cqos.Facts.ctorsLimit'],
        'runs': [{'cmd': 'lstepper', 'args': ['-family', 'mixed']},
                 {'cmd': 'blackbox', 'args': ['-scenario', 'limit']}],
        'monitor_prefix': ['C12'],
        'level': 'proof',
        'level_text': ('Lean theorems on the limit machine for every action list: the sent elements are always an in-order prefix of '
                       'the received ones and exactly them at termination; termination happens only through a receive that reports '
                       'the input closed and empty; fewer than Quantity elements cause no sleep at all; exactly one sleep of at most '
                       'Interval per completed batch of Quantity elements; upper bound (c12_item_upper): along every run in which every clock '
                       'reading is at most eps after the previous one and Sleep oversleeps at most eps, with (Quantity+1)*eps <= Interval, the '
                       'i-th element leaves no later than t0 + floor(i/Quantity)*(Interval+2eps) + (Quantity+1)*eps. Tied by the stepper on pass()/delay()'),
        'level_note': ('partial: "within about ceil(N/Quantity) intervals" is proved under the hypothesis promptRun (elements available, consumer '
                       'ready, Sleep oversleeps at most eps) - a runtime fact, checked with slack by the black-box runs'),
        'rule': 'as C04',
        'trusted_base': ['verif hook stepper for limit'],
        'assumptions': [],
    },
    'C02': {
        'lean_targets': ['Cqos.Props.C02', 'Cqos.Facts.GluePrioV2', 'Cqos.Facts.GluePrioV1', 'Cqos.Props.C01s'],
        'facts': True,
        'theorems': ['Cqos.C02.step_hinv', 'Cqos.C02.run_hinv', 'Cqos.C02.c02_fifo', 'Cqos.C02.c02_v2_no_drop',
                     'Cqos.C02.c02_subsequence', 'Cqos.C02.c02_tag', 'Cqos.C02.c02_simple', 'Cqos.Facts.gluePrioV2', 'Cqos.Facts.gluePrioV1', 'Cqos.C01.c02_simple_v2'],
        'runs': [{'cmd': 'stepper', 'args': ['-family', 'mixed']}, {'cmd': 'stepper', 'args': ['-family', 'terminate']},
                 {'cmd': 'stepper', 'args': ['-family', 'dynamic']},
                 {'cmd': 'blackbox', 'args': ['-scenario', 'prio2,prio1,dynamic,simple2,simple1']}],
        # the AddInput monitor of the dynamic family (the added channel is not among the inputs served:
        # whatever is written to it is never delivered) is a C02 failing input as well (seed C02-i)
        'monitor_prefix': ['C02', 'C17 after AddInput(ch,'],
        'level': 'proof',
        'level_text': ('Lean theorems on the history variables of the scheduler machine (arrived, taken, delivered, dropped) for every '
                       'action list and every divider: per input channel, delivered ++ still-queued = written (no loss, duplication, '
                       'reordering, nothing invented) whenever no send was aborted, which is always the case in v2; in general the '
                       'deliveries are an in-order sub-sequence of what was received; every delivery carries the priority under which '
                       'the channel it was received from is registered at that moment and is the oldest waiting item of that channel; '
                       'simplified v2 discipline (layered machine): the Handle calls made so far are exactly the delivered items picked '
                       'up, once each and in order, and at termination all of them (c02_simple_v2)'),
        'level_note': 'trusted: correspondence by differential stepping (exact equality of actual/tactic/strategic/priorities/drained/output after each op); unbuffered inputs only in their deterministic states; New/main/loop glue by black-box runs and facts',
        'rule': 'stepper scripts (families mixed, terminate, dynamic); the monitor matches every delivered item against the per-channel written sequence',
        'trusted_base': ['Go channels as FIFO queues'],
        'assumptions': [],
    },
    'C15': {
        'lean_targets': ['Cqos.Props.C15', 'Cqos.Props.C15s', 'Cqos.Facts.CtorsPrio'],
        'facts': True,
        'theorems': ['Cqos.SimpleV1.einv_step', 'Cqos.SimpleV1.c15_simple_error_reported', 'Cqos.SimpleV1.c15_simple_unfixed_error_lost', 'Cqos.C15.safeDivide_err_iff', 'Cqos.C15.round_division_err_iff', 'Cqos.C15.c15_failsafe_step',
                     'Cqos.C15.c15_failsafe_run', 'Cqos.C15.c15_calc_fault', 'Cqos.C15.c15_recalc_fault',
                     'Cqos.C15.c15_base_fault_iff', 'Cqos.C15.c15_drain_progress', 'Cqos.C15.wf_step', 'Cqos.C15.wf_run',
                     'Cqos.C15.c15_args_v2', 'Cqos.C15.c15_args_v1', 'Cqos.C15.c15_args_sublist_calc',
                     'Cqos.C15.c15_args_sublist_recalc', 'Cqos.C15.c15_new_divider_bad', 'Cqos.C15.c15_new_too_small',
                     'Cqos.C15.c15_unfixed_counterexample', 'Cqos.Facts.ctorsPrio'],
        'runs': [{'cmd': 'stepper', 'args': ['-family', 'faulty']}, {'cmd': 'pure', 'args': ['-family', 'c18']},
                 {'cmd': 'stepper', 'args': ['-family', 'dynamic']}, {'cmd': 'blackbox', 'args': ['-scenario', 'faulty']}],
        'monitor_prefix': ['C15'],
        'level': 'proof',
        'level_text': ('Lean theorems for every action list and every (faulty, stateful) divider: each recorded divider call has a '
                       'strictly decreasing priority list that is a sub-list of the registered priorities and a dividend <= H (v1 and '
                       'v2, across AddInput/RemoveInput); safeDivide rejects exactly a non-zero total whose increase differs from the '
                       'dividend; a rejected round division moves the machine to drain(error), after which no delivery is ever enabled, '
                       'the error is kept, and the machine terminates once in-flight items are released; prepare returns ErrDividerBad / '
                       'ErrHandlersQuantityTooSmall exactly as stated. Tied by fault-injecting dividers in the stepper (over/under/zero at '
                       'call k, listed or unlisted key) whose wrapper checks the arguments of every real call'),
        'level_note': 'trusted: correspondence by differential stepping (exact equality of actual/tactic/strategic/priorities/drained/output after each op); unbuffered inputs only in their deterministic states; New/main/loop glue by black-box runs and facts',
        'rule': 'stepper family faulty (fault kind x call index 0..6 x key) + prepare over the C18 family',
        'trusted_base': ['the Go fault-injecting wrapper mirrors the Lean one (mkDiv)'],
        'assumptions': ['H and totals < 2^63 (the unsigned difference after-before does not wrap onto the dividend)'],
    },
    'C07': {
        'lean_targets': ['Cqos.Props.C07', 'Cqos.Props.C07p', 'Cqos.Props.C07g', 'Cqos.Props.C07t', 'Cqos.Props.C01s', 'Cqos.Facts.GluePrioV2', 'Cqos.Facts.GluePrioV1', 'Cqos.Props.C16s'],
        'facts': True,
        'theorems': ['Cqos.C07.tinv_step', 'Cqos.C07.tinv_run', 'Cqos.C07.c07_v2_only_then', 'Cqos.C07.c07_v1_graceful_only_then',
                     'Cqos.C07.stopped_false_v2', 'Cqos.C07.c07_no_error_calc', 'Cqos.C07.c07_no_error_recalc',
                     'Cqos.C15.c15_drain_progress', 'Cqos.C07.c07_prompt_step', 'Cqos.C07.c07_prompt',
                     'Cqos.C07.c07_prompt_reachable', 'Cqos.C07.c07_prompt_unique', 'Cqos.C07.v2_static_run',
                     'Cqos.C07.c07_graceful_step', 'Cqos.C07.c07_graceful_prompt', 'Cqos.C07.wg_step', 'Cqos.C07.c07_graceful_prompt_reachable', 'Cqos.C07.c07_v1_zero_share_graceful_hangs',
                     'Cqos.C07.step_chans', 'Cqos.C07.quiesce_step', 'Cqos.C07.c07_quiescible', 'Cqos.C07.c07_terminable', 'Cqos.Facts.gluePrioV2', 'Cqos.Facts.gluePrioV1', 'Cqos.C01.c07_simple_v2', 'Cqos.SimpleV1.c19_simple_completed'],
        'runs': [{'cmd': 'stepper', 'args': ['-family', 'terminate']}, {'cmd': 'stepper', 'args': ['-family', 'mixed']},
                 {'cmd': 'stepper', 'args': ['-family', 'dynamic']},
                 {'cmd': 'blackbox', 'args': ['-scenario', 'prio2,prio1,simple1,dynamic']}],
        'monitor_prefix': ['C07', 'C02 the discipline terminated normally'],
        'level': 'proof',
        'level_text': ('Lean theorems for every action list and divider: a terminated v2 discipline has every registered input '
                       'drained (channel closed and empty), nothing in flight and no release outstanding; the same for v1 when it '
                       'terminated without Stop/cancel (GracefulStop); with a sum-rule divider calcTactic/recalcTactic never report '
                       'an error; in the drain state pending releases can always be consumed and termination follows once none is '
                       'left. Promptness (v2): in EVERY reachable state in which all inputs are closed and empty, nothing is in '
                       'flight and no release is outstanding - whatever the control point - the discipline reaches done by its own '
                       'steps alone within 5n+12 of them (no release, arrival or timer needed), and what is enabled there is only '
                       'that step, irrelevant environment actions, or the interrupter tick winning Go\'s select on an unbuffered '
                       'closed input (c07_prompt_reachable, c07_prompt_unique). Promptness (v1, GracefulStop): the same for EVERY state reachable from the v1 constructor by any action list (arrivals, feedbacks, AddInput/RemoveInput) in which GracefulStop() was called, under the hypothesis that the shares in force add up to H and every registered priority has at least one handler - done within 5n+13 own steps (c07_graceful_prompt_reachable); without that hypothesis it is false of model and code (c07_v1_zero_share_graceful_hangs = known finding F1b). Termination stays reachable (c07_terminable): from EVERY reachable v2 state, '
                       'once all registered inputs are closed, some continuation of handlers\' releases and own steps ends in done; and quiescence '
                       '(nothing queued on undrained inputs, nothing in flight, no release unread) is reachable from every state (c07_quiescible). Tied by the stepper (isDrainedInputs, waitZeroActual, base on closing/closed inputs)'),
        'level_note': 'partial: the wall-clock length of a step and the select choice on an unbuffered closed input are runtime matters; v1 promptness of GracefulStop is a theorem only under the hypothesis that every registered priority has a share (known finding F1b: false of model and code for zero-share configurations); ' + 'trusted: correspondence by differential stepping (exact equality of actual/tactic/strategic/priorities/drained/output after each op); unbuffered inputs only open and empty; New/main/loop glue by black-box runs and facts',
        'rule': 'stepper families terminate and mixed: inputs closed at different rounds, releases withheld / grouped, graceful',
        'trusted_base': [],
        'assumptions': ['priority keys of the Inputs map are distinct (Go map)'],
    },
    'C17': {
        'lean_targets': ['Cqos.Props.C17', 'Cqos.Props.C17v', 'Cqos.Facts.C17', 'Cqos.Facts.GluePrioV1', 'Cqos.Facts.CtorsPrio'],
        'facts': True,
        'theorems': ['Cqos.C17.c17_add_then_delivers', 'Cqos.C17.c17_remove', 'Cqos.C17.c17_remove_unreg', 'Cqos.C17.c17_unregistered_not_read', 'Cqos.C17.c17_add',
                     'Cqos.C17.c17_actual_survives', 'Cqos.C01.c01_v1', 'Cqos.C15.c15_args_v1', 'Cqos.C07.c07_v1_graceful_only_then',
                     'Cqos.Facts.c17_commands_unbuffered', 'Cqos.Facts.gluePrioV1', 'Cqos.Facts.ctorsPrio'],
        'runs': [{'cmd': 'stepper', 'args': ['-family', 'dynamic']},
                 {'cmd': 'blackbox', 'args': ['-scenario', 'dynamic']}],
        'monitor_prefix': ['C17', 'C02', 'C01'],
        'level': 'proof',
        'level_text': ('Lean theorems on the v1 machine whose alphabet contains the loop-top cases add/remove (the caller returns when '
                       'the unbuffered command channel is received from): after remove the priority is unregistered and a channel no '
                       'registered priority refers to is never received from until it is added again; after add the priority refers to '
                       'the new channel, not drained; actual counts survive removal; capacity, exactly-once/FIFO, the argument contract '
                       'and the termination invariant are proved across any sequence of add/replace/remove/re-add; delivery after an addition (c17_add_then_delivers): with nothing in flight the round that follows the loop-top case delivers the head element of the added channel under the added priority by the discipline\'s own steps - hypotheses about the re-divided shares (they add up to H, the added priority has a share: finding F1 otherwise) and about the channel being used by no other priority'),
        'level_note': 'trusted: correspondence by differential stepping (exact equality of actual/tactic/strategic/priorities/drained/output after each op); unbuffered inputs only open and empty; New/main/loop glue by black-box runs and facts',
        'rule': 'stepper family dynamic: add / replace / reconnect-after-close / remove / re-add interleaved with traffic and releases',
        'trusted_base': [],
        'assumptions': [],
    },
    'C16': {
        'lean_targets': ['Cqos.Props.C16', 'Cqos.Facts.C16', 'Cqos.Facts.GluePrioV1', 'Cqos.Facts.GlueJoin', 'Cqos.Props.C16s'],
        'facts': True,
        'theorems': ['Cqos.C16.c16_stop_step', 'Cqos.C16.c16_exit_bound', 'Cqos.C16.c16_quiet', 'Cqos.C16.c16_unfixed_cycle',
                     'Cqos.C16.c16_join_stop', 'Cqos.Facts.c16_selects_offer_stop', 'Cqos.C08.c08_v1_frozen', 'Cqos.C02.c02_subsequence', 'Cqos.C03.c03_prefix', 'Cqos.Facts.gluePrioV1', 'Cqos.Facts.glueJoin', 'Cqos.SimpleV1.sys_step', 'Cqos.SimpleV1.c16_simple_progress', 'Cqos.SimpleV1.c16_simple_bound', 'Cqos.SimpleV1.c16_simple_unfixed_deadlock'],
        'runs': [{'cmd': 'stepper', 'args': ['-family', 'stops']}, {'cmd': 'jstepper', 'args': ['-family', 'mixed']},
                 {'cmd': 'blackbox', 'args': ['-scenario', 'prio1,simple1,join']}],
        'monitor_prefix': ['C16'],
        'level': 'proof',
        'level_text': ('Lean theorems on the v1 machine (with the repaired waitCalcTactic, defect D3): in every reachable stopped, '
                       'non-terminated state - all handlers busy, consumer not reading, producers blocked, release never sent - the '
                       'stop-preferring step is enabled, changes no delivery and strictly decreases a measure <= 7 + 2*#priorities, so '
                       'at most that many steps lead to done; after done nothing is ever delivered; join: the stop branch is enabled in '
                       'run and while awaiting the release and ends the discipline with a frozen event log; deliveries are an in-order '
                       'duplicate-free sub-sequence (C02/C03). The unrepaired spinning cycle is kept as a theorem. Simplified discipline: '
                       'a protocol machine of main, the graceful helper, the inner discipline and the handlers (Cqos/SimpleV1.lean, its '
                       'composition pinned by the regenerated glue skeleton): once Stop was called or the context cancelled some process '
                       'can always move, every move decreases a measure of 17 + HandlersQuantity, so main completes - also with a graceful '
                       'stop pending and inputs that never close; the composition before repair D4 provably deadlocks there. The stepper breaks the '
                       'breaker / cancels the context at every script position and requires every hooked call to return'),
        'level_note': 'partial: the time Go\'s select needs to pick the ready stop case among other ready cases is a runtime property; ' + 'trusted: correspondence by differential stepping; the loop-top select of v1 and the blocking Stop() call itself by black-box runs',
        'rule': 'stepper family stops (Stop or cancel at a random round, 0..H in flight) and the join stepper with stop while awaiting release',
        'trusted_base': [],
        'assumptions': ['select eventually takes a ready case'],
    },
    'C05': {
        'lean_targets': ['Cqos.Props.C05', 'Cqos.Facts.CtorsPrio'],
        'facts': True,
        'theorems': ['Cqos.C05.addUp_spec', 'Cqos.C05.sat_calc', 'Cqos.C05.sat_recalc', 'Cqos.C05.sat_step', 'Cqos.C05.sat_run',
                     'Cqos.C05.c05_share', 'Cqos.C05.c05_full', 'Cqos.C05.wellBehaved_fair', 'Cqos.C05.wellBehaved_rate',
                     'Cqos.C05.sum_strategic_fair', 'Cqos.C05.sum_strategic_rate',
                     'Cqos.C05.sat_initV1', 'Cqos.C05.c05_share_v1', 'Cqos.C05.c05_full_v1', 'Cqos.Facts.ctorsPrio'],
        'runs': [{'cmd': 'stepper', 'args': ['-family', 'saturated']},
                 {'cmd': 'blackbox', 'args': ['-scenario', 'saturated,simple1']}],
        'monitor_prefix': ['C05'],
        'level': 'proof',
        'level_text': ('Lean theorems on the scheduler machine (v2 from New; v1 from New as long as there is no Stop/cancel and no '
                       'AddInput/RemoveInput) for every saturated action list (no poll ever finds an input empty '
                       'or closed) - every order, grouping and timing of releases - and every additive, call-independent, sum-preserving '
                       'divider (Fair and Rate are proved to be instances): each priority\'s in-flight count never exceeds its share; '
                       'whenever the discipline waits for a release all H handlers are accounted busy, and with no release outstanding '
                       'every priority holds exactly its share. Tied by the stepper family that keeps every buffered input full'),
        'level_note': ('trusted: correspondence by differential stepping; unbuffered inputs are outside the property ("data waiting '
                       'continuously" cannot be observed by iou, which may see two interrupter ticks in a row); the monitor computes the '
                       'share with the library divider on the sorted priorities, not from the discipline\'s own strategic map'),
        'rule': 'stepper family saturated: inputs of capacity H+2 refilled before every round; releases none/one/some/all per round',
        'trusted_base': [],
        'assumptions': ['saturation as a property of the action list (pollEmpty / pollClosed never occur)'],
    },
    'C06': {
        'lean_targets': ['Cqos.Props.C06', 'Cqos.Props.C16', 'Cqos.Facts.GluePrioV2', 'Cqos.Props.C06d', 'Cqos.Props.C06i', 'Cqos.Props.C06v', 'Cqos.Props.C06e', 'Cqos.Props.C06f', 'Cqos.Props.C06s'],
        'facts': True,
        'theorems': ['Cqos.C06.c06_idle_delivers_v1_calc', 'Cqos.C06.c06_idle_delivers_v1', 'Cqos.C06.sumRule_lowfirst', 'Cqos.C06.c06_calc_idle', 'Cqos.C06.calc_wait_busy', 'Cqos.C06.w_step', 'Cqos.C06.c06_never_waits_idle',
                     'Cqos.C06.c06_head_served', 'Cqos.C06.c06_recalc_alone', 'Cqos.C06.c06_v1_zero_share_starves',
                     'Cqos.C15.c15_drain_progress', 'Cqos.C16.c16_exit_bound', 'Cqos.Facts.gluePrioV2', 'Cqos.C06.poll_enabled', 'Cqos.C06.c06_no_deadlock',
                     'Cqos.C06.skip_one', 'Cqos.C06.c06_phase1_delivers', 'Cqos.C06.v2_inputs_own_chan', 'Cqos.C06.c06_idle_delivers',
                     'Cqos.C06.noerr_step', 'Cqos.C06.sched_step', 'Cqos.C06.terminal', 'Cqos.C06.c06_deliverable',
                     'Cqos.C06.sumRule_fair', 'Cqos.C06.sumRule_rate', 'Cqos.C06.step_effect', 'Cqos.C06.c06_every_item',
                     'Cqos.C06.pacc_sstep', 'Cqos.C06.lift_run', 'Cqos.C06.c06_simple_every_item_handled'],
        'runs': [{'cmd': 'stepper', 'args': ['-family', 'single']}, {'cmd': 'stepper', 'args': ['-family', 'mixed']},
                 {'cmd': 'stepper', 'args': ['-family', 'terminate']},
                 {'cmd': 'blackbox', 'args': ['-scenario', 'alone,dynamic,prio2']}],
        'monitor_prefix': ['C06'],
        'level': 'proof',
        'level_text': ('Lean theorems (safety-shaped progress facts, every action list): a v2 discipline never waits for a release while '
                       'nothing is in flight; with nothing in flight calcTactic proceeds and allots every priority its full share; when the '
                       'turn of a priority with data and a positive allotment comes, delivering its oldest item is enabled while skipping / '
                       'giving up is not; a priority alone in having data receives the whole unused remainder in the second phase; '
                       'deadlock freedom: in every reachable non-terminated state either one of the discipline\'s own actions is '
                       'enabled or it waits for a release while a handler still holds an item (c06_no_deadlock); run-composed progress '
                       '(c06_idle_delivers): in every reachable v2 state about to compute a round with nothing in flight, the head item of '
                       'every undrained input with data is delivered by calcTactic and at most H+n poll actions of the discipline alone, '
                       'with no release and no other environment action; no reachable state is doomed (c06_deliverable): after ANY run of a v2 '
                       'discipline with a divider obeying the sum rule (Fair and Rate do: sumRule_fair, sumRule_rate), an item waiting at the '
                       'head of a registered undrained input is delivered by some continuation made only of handlers releasing what they hold '
                       'and of the discipline\'s own steps (scheduler + lexicographic measure: queued items, occupied handlers, position in the round); '
                       'the same for an item at ANY position of the queue (c06_every_item, by induction on the items ahead, using the C02 history invariant); '
                       'for the simplified v2 discipline, where the handlers are part of the system, every waiting item gets Handle called for it by a '
                       'continuation of own, take and finish steps only (c06_simple_every_item_handled). v1: the idle clause after ANY run including AddInput/RemoveInput, under the hypotheses v2 gets from its constructor (shares add up to H, the priority concerned has a share, its channel is its own): c06_idle_delivers_v1; the angelic liveness theorems are not ported to v1. The '
                       'stepper reports blocked-with-nothing-in-flight and single-active-priority under-occupation exactly (no timing)'),
        'level_note': ('partial: c06_deliverable / c06_idle_delivers show that delivery stays reachable from every reachable state by releases and the '
                       'discipline\'s own steps alone; that these steps are actually taken needs fairness of the Go scheduler and handlers that '
                       'release, which is not modelled (the theorem is the angelic half of the eventuality); v1 accepts zero-share configurations and starves them - known finding F1'),
        'rule': 'stepper families single (one active priority), mixed, terminate; monitors: waits-with-nothing-in-flight, alone-not-granted-all',
        'trusted_base': [],
        'assumptions': ['handlers eventually release; Go schedules the discipline goroutine'],
    },
    'C19': {
        'lean_targets': ['Cqos.Facts.C19', 'Cqos.Facts.C16', 'Cqos.Props.C16', 'Cqos.Props.C07', 'Cqos.Props.C03', 'Cqos.Props.C12', 'Cqos.Props.C16s', 'Cqos.Facts.GluePrioV1'],
        'facts': True,
        'theorems': ['Cqos.Facts.c19_spawn_table', 'Cqos.Facts.c19_main_defers', 'Cqos.Facts.afterSignal_head',
                     'Cqos.Facts.c19_nothing_after_signal', 'Cqos.Facts.c19_helper_joined', 'Cqos.Facts.c19_handlers_exit', 'Cqos.Facts.c19_err_buffered', 'Cqos.Facts.c16_selects_offer_stop',
                     'Cqos.C16.c16_exit_bound', 'Cqos.C16.c16_quiet', 'Cqos.C16.c16_join_stop', 'Cqos.C07.c07_v2_only_then',
                     'Cqos.C07.c07_v1_graceful_only_then', 'Cqos.C12.c12_close', 'Cqos.SimpleV1.c19_simple_completed', 'Cqos.SimpleV1.c16_simple_bound', 'Cqos.Facts.gluePrioV1'],
        'runs': [{'cmd': 'blackbox', 'args': ['-scenario', 'all']}],
        'monitor_prefix': ['C19'],
        'level': 'proof',
        'level_text': ('the goroutine structure of every discipline is REGENERATED from /repo on every run (go/ast extractor -> '
                       'Cqos/Facts/Generated.lean) and the kernel decides on that table: each constructor starts exactly one goroutine '
                       '(main), only the simplified disciplines start more (HandlersQuantity handlers from main); the termination signal '
                       'the API waits on (closed err/output, breaker.Complete) is the first-registered deferred call of main, hence (general '
                       'lemma afterSignal_head) the last thing main ever executes; v1 Simple stops the inner discipline, cancels the handlers\' '
                       'context and waits for them (wg.Wait) before signalling, each handler defers wg.Done and returns on ctx.Done in both '
                       'selects; the v2 handler is a range over the output that main closes; every blocking select of v1 offers both stop '
                       'cases. That main reaches its end on every termination path is the machine theorems (C16 exit bound, C07 termination '
                       'only after all released, C12/C03 close). Black-box scenarios end every discipline in every way (inputs closed, Stop, '
                       'cancel, GracefulStop, Stop with busy handlers, divider error) and probe the goroutine profile for library frames'),
        'level_note': ('partial: the step from the structural facts to "the goroutine is gone" relies on Go\'s defer semantics (modelled by '
                       'afterSignal) and on the handlers being scheduled after their channel closes (v2 simple handlers leave a moment after '
                       'Err() closes - not a leak, but not "at the instant"); trusted: the go/ast fact extractor (cmd/facts)'),
        'rule': 'black-box scenarios prio2/simple2/prio1/simple1/join/limit/dynamic; after every termination runtime.Stack is scanned for frames inside github.com/akramarenkov/cqos (3 s grace)',
        'technique': 'Lean 4 theorems decided on a fact table regenerated from the Go source by a go/ast translator + machine theorems of the hand-written model + black-box goroutine-profile probe',
        'trusted_base': ['go/ast fact extractor /verif/harness/cmd/facts (translator)'],
        'assumptions': ['Go runs deferred calls in reverse registration order after the function body', 'user Handle functions honour their context (v1 Simple)'],
    },
    'C20': {
        'lean_targets': ['Cqos.Facts.C20', 'Cqos.Facts.C19', 'Cqos.Props.C08', 'Cqos.Props.C17', 'Cqos.Facts.CtorsPrio', 'Cqos.Facts.CtorsJoin', 'Cqos.Facts.CtorsLimit'],
        'facts': True,
        'theorems': ['Cqos.Facts.c20_confined', 'Cqos.Facts.c20_main_writes', 'Cqos.Facts.c20_ctors', 'Cqos.Facts.c19_spawn_table',
                     'Cqos.C08.c08_copy', 'Cqos.C08.c08_nocopy', 'Cqos.C08.c08_await_only_release', 'Cqos.C08.c08_v1_frozen',
                     'Cqos.C17.c17_unregistered_not_read', 'Cqos.Facts.ctorsPrio', 'Cqos.Facts.ctorsJoin', 'Cqos.Facts.ctorsLimit'],
        'runs': [{'cmd': 'blackbox', 'args': ['-scenario', 'all'], 'race': True},
                 {'cmd': 'pure', 'args': ['-family', 'c13'], 'race': True}],
        'monitor_prefix': ['C20'],
        'level': 'proof',
        'level_text': ('confinement, decided by the kernel on the field-access table REGENERATED from /repo on every run: in every '
                       'discipline type the fields written by anything reachable from main (the only goroutine a constructor starts, C19 '
                       'table) are neither read nor written by anything reachable from an exported method or a handler goroutine; '
                       'constructors start the goroutine as their last statement (every constructor write happens-before it); the API '
                       'touches only channels and the breaker, which synchronise. User-visible data: the join machine\'s memory-identity '
                       'theorems - a copy-mode slice is fresh memory never touched again; a no-copy slice is not written between its send and '
                       'the release (nor after Stop in v1); an unregistered input channel is never received from (C17). The same black-box '
                       'scenarios run under the Go race detector (many handlers releasing, producers, Stop/GracefulStop/AddInput/RemoveInput '
                       'from other goroutines, consumers modifying copy-mode slices); every report is a failing input'),
        'level_note': ('partial: Go\'s memory model is not formalised - the theorem is the confinement discipline that makes the library '
                       'race-free given that channel operations synchronise; races inside internal/breaker and the standard library are '
                       'covered by the race-detector runs only; trusted: the go/ast fact extractor (cmd/facts)'),
        'rule': 'black-box scenarios built with -race (CGO), GORACE log parsed: each WARNING: DATA RACE is a failing input',
        'technique': 'Lean 4 theorems decided on a field-access table regenerated from the Go source by a go/ast translator + memory-identity theorems of the join model + black-box runs under the Go race detector as failing-input search',
        'trusted_base': ['go/ast fact extractor /verif/harness/cmd/facts (translator)', 'Go race detector (failing-input search only)'],
        'assumptions': ['channel send/receive/close and sync primitives synchronise as in the Go memory model'],
    },
}
