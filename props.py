"""
Per-property wiring of /verif/check: which Lean modules and theorems are the proof
obligations, which correspondence families tie the model to /repo, which monitor
failures count as violations of the property.
"""

COMMON_TRUSTED = [
    'Lean 4.33 kernel (thorough tier: re-checked by leanchecker)',
    'axioms: at most propext, Classical.choice, Quot.sound (audited by #print axioms on every run)',
    'hand-written Lean model; tied to /repo by the correspondence check (Go harness + verif hooks + cqosmodel line protocol)',
    'Lean compiler/runtime executing the model driver (cqosmodel)',
]

PURE_NOTE = ('the implementation is called in-process on every generated input; its reply line is '
             'compared with the model\'s reply to the same request; the property predicate is also '
             'evaluated directly on the implementation\'s result (monitor)')

NOT_APPLICABLE = {}

PROPS = {
    'C13': {
        'lean_targets': ['Cqos.Props.C13'],
        'theorems': ['Cqos.C13.c13_valid', 'Cqos.C13.c13_equiv', 'Cqos.C13.c13_error_iff',
                     'Cqos.C13.c13_optimize_flatten', 'Cqos.C13.c13_unfixed_counterexample'],
        'runs': [{'cmd': 'pure', 'args': ['-family', 'c13']}],
        'monitor_prefix': ['C13'],
        'level': 'proof',
        'level_text': ('Lean theorems (validity, minimum, minimality, equivalence within rounding, exact error '
                       'conditions) about the model of Recalculate for ALL integers, hence the full int64/uint64 '
                       'ranges; the model is tied to the Go function by exhaustive small-scope + boundary + 64-bit edge '
                       'differential runs on every check'),
        'level_note': ('trusted: Lean kernel, the correspondence (differential testing of single calls, ~270k/quick), '
                       'math/big modelled as exact arithmetic'),
        'rule': ('Recalculate/Optimize/Flatten/IsValid on: every (I,Q,min) in a small box (exhaustive), '
                 'the boundary family I = Q*min + r around the branch condition, 64-bit edges incl. the '
                 'quotient around 2^64, invalid inputs, log-uniform random; non-trivial = valid rate and '
                 'min >= 0; distinct = distinct request line. ' + PURE_NOTE),
        'trusted_base': ['math/big modelled as exact Nat arithmetic; time.Duration as Int with the int64 range not enforced (theorems hold for all Int)'],
        'assumptions': ['model = code is established by differential testing of single calls, not by proof'],
    },
}
