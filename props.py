"""
Per-property wiring of /verif/check: which Lean modules and theorems are the proof
obligations, which correspondence families tie the model to /repo, which monitor
failures count as violations of the property.
"""

COMMON_TRUSTED = [
    'Lean 4.33 kernel (thorough tier: re-checked by leanchecker)',
    'axioms: at most propext, Classical.choice, Quot.sound (audited by #print axioms on every run)',
    'hand-written Lean model; tied to /repo by the correspondence check (Go harness + verif hooks + cqosmodel line protocol)',
    'Lean compiler/runtime executing the model driver (cqosmodel)',
]

PURE_NOTE = ('the implementation is called in-process on every generated input; its reply line is '
             'compared with the model\'s reply to the same request; the property predicate is also '
             'evaluated directly on the implementation\'s result (monitor)')

NOT_APPLICABLE = {}

PROPS = {
    'C13': {
        'lean_targets': ['Cqos.Props.C13'],
        'theorems': ['Cqos.C13.c13_valid', 'Cqos.C13.c13_equiv', 'Cqos.C13.c13_error_iff',
                     'Cqos.C13.c13_optimize_flatten', 'Cqos.C13.c13_unfixed_counterexample'],
        'runs': [{'cmd': 'pure', 'args': ['-family', 'c13']}],
        'monitor_prefix': ['C13'],
        'level': 'proof',
        'level_text': ('Lean theorems (validity, minimum, minimality, equivalence within rounding, exact error '
                       'conditions) about the model of Recalculate for ALL integers, hence the full int64/uint64 '
                       'ranges; the model is tied to the Go function by exhaustive small-scope + boundary + 64-bit edge '
                       'differential runs on every check'),
        'level_note': ('trusted: Lean kernel, the correspondence (differential testing of single calls, ~270k/quick), '
                       'math/big modelled as exact arithmetic'),
        'rule': ('Recalculate/Optimize/Flatten/IsValid on: every (I,Q,min) in a small box (exhaustive), '
                 'the boundary family I = Q*min + r around the branch condition, 64-bit edges incl. the '
                 'quotient around 2^64, invalid inputs, log-uniform random; non-trivial = valid rate and '
                 'min >= 0; distinct = distinct request line. ' + PURE_NOTE),
        'trusted_base': ['math/big modelled as exact Nat arithmetic; time.Duration as Int with the int64 range not enforced (theorems hold for all Int)'],
        'assumptions': ['model = code is established by differential testing of single calls, not by proof'],
    },
    'C14': {
        'lean_targets': ['Cqos.Props.C14'],
        'theorems': ['Cqos.C14.c14_fair_total', 'Cqos.C14.c14_fair_frame', 'Cqos.C14.c14_fair_shape',
                     'Cqos.C14.c14_rate_total', 'Cqos.C14.c14_rate_frame', 'Cqos.C14.c14_rate_incs',
                     'Cqos.C14.c14_rate_mono', 'Cqos.C14.c14_v1_eq_v2'],
        'runs': [{'cmd': 'pure', 'args': ['-family', 'c14']}],
        'monitor_prefix': ['C14'],
        'level': 'proof',
        'level_text': ('Lean theorems for every priority list, dividend and initial map: Fair and Rate add exactly the '
                       'dividend and touch no unlisted entry (Rate: for ANY rounding function, so independent of floating '
                       'point), Fair\'s increments are floor(d/n) plus one for the first d mod n, Rate\'s increments are '
                       'non-increasing when the rounded parts are, v1 = v2; the model is tied to all four Go functions by '
                       'exhaustive small-scope + tie/truncation/near-equal/large-magnitude differential runs'),
        'level_note': ('partial in one respect: the "within n/2 of the exact share" clause and the antitone hypothesis on the '
                       'IEEE rounding are not kernel-proved (Float is opaque); they are evaluated on every executed call by the '
                       'model driver (float-hypothesis-fails) and by the monitor on the implementation\'s result'),
        'rule': ('Fair/Rate/FairDivider/RateDivider on: every sorted duplicate-free list over a small alphabet x dividend '
                 'range (exhaustive), nil/pre-filled maps, exact-tie dividends, truncation (near-equal large priorities), '
                 'dividends around multiples of sum and of n, skewed lists, random magnitudes up to 2^40 / 2^32; '
                 'non-trivial = at least two priorities and a positive dividend; distinct = distinct request line. ' + PURE_NOTE),
        'trusted_base': ['IEEE-754 double arithmetic of Rate is executed (Lean Float = C double), not reasoned about'],
        'assumptions': ['priorities sum < 2^53 and totals < 2^64 (no float/uint overflow)'],
    },
    'C18': {
        'lean_targets': ['Cqos.Props.C18'],
        'theorems': ['Cqos.C18.c18_comb', 'Cqos.C18.c18_comb_count', 'Cqos.C18.c18_nonfatal_iff',
                     'Cqos.C18.c18_unfixed_counterexample', 'Cqos.C18.c18_suitable_imp', 'Cqos.C18.c18_suitable_mono',
                     'Cqos.C18.c18_pick_min', 'Cqos.C18.c18_pick_max', 'Cqos.C18.c18_accepted',
                     'Cqos.C18.c18_accepted_fair', 'Cqos.C18.c18_accepted_rate'],
        'runs': [{'cmd': 'pure', 'args': ['-family', 'c18']}],
        'monitor_prefix': ['C18'],
        'level': 'proof',
        'level_text': ('Lean theorems for every priority list, ANY divider and every q/max: genCombinations = the non-empty '
                       'order-preserving sub-lists (2^n-1 of them), IsNonFatalConfig true iff every member of every such '
                       'sub-list gets >= 1, suitable => non-fatal, monotone in the limit, PickUpMin/Max = least/greatest '
                       'q in [1,max] or 0, non-fatal => prepare accepts (Fair, Rate via the C14 conservation theorems); '
                       'the model is tied to both modules\' helpers and to v2 prepare by differential runs'),
        'level_note': ('the float comparison inside isDistributionSuitable is a parameter of the theorems (monotonicity is '
                       'stated for any comparison that is monotone in the limit); the driver executes the IEEE computation'),
        'rule': ('IsNonFatalConfig / IsSuitableConfig / PickUp* (v1 and v2), genCombinations, prepare on: every priority set '
                 'over a small alphabet x q range (exhaustive, shuffled presentation), near-equal large priorities '
                 '(Rate truncation family), the D2 witness, random sets; non-trivial = at least two priorities and q > 0; '
                 'distinct = distinct request line. ' + PURE_NOTE),
        'trusted_base': ['IEEE-754 arithmetic of isDistributionSuitable is executed, not reasoned about'],
        'assumptions': ['max < 2^64-1 (the Go loop counter does not wrap)'],
    },
    'C01': {
        'lean_targets': ['Cqos.Props.C01'],
        'theorems': ['Cqos.C01.step_inv', 'Cqos.C01.run_inv', 'Cqos.C01.c01_capacity', 'Cqos.C01.c01_v2',
                     'Cqos.C01.c01_v1', 'Cqos.C01.c01_simple', 'Cqos.C01.drive_is_run'],
        'runs': [{'cmd': 'stepper', 'args': ['-family', 'mixed']},
                 {'cmd': 'stepper', 'args': ['-family', 'faulty']},
                 {'cmd': 'stepper', 'args': ['-family', 'dynamic']},
                 {'cmd': 'stepper', 'args': ['-family', 'saturated']}],
        'monitor_prefix': ['C01'],
        'level': 'proof',
        'level_text': ('Lean theorem by induction over ARBITRARY action lists of the scheduler machine (v1 and v2 in one '
                       'machine; arrivals, closes, releases, Stop, GracefulStop, AddInput/RemoveInput and every select '
                       'choice are actions): in-flight = delivered - release issued never exceeds H and no unsigned '
                       'subtraction wraps, for EVERY divider function (faulty ones included, safeDivide is modelled) and '
                       'every strategic distribution. The machine is tied to the real disciplines by the white-box '
                       'stepper: real unexported methods called one at a time on generated scripts, state projection '
                       'compared with the machine after every operation'),
        'level_note': ('trusted: correspondence by differential stepping (exact equality of actual/tactic/strategic/'
                       'priorities/drained/output after each op), the hook constructor duplicating New\'s struct literal, '
                       'Go channels as FIFO queues; unbuffered inputs only in their deterministic states (empty/closed)'),
        'rule': ('operation scripts (arrive/close/release, calc/fb1/prio/recalc/base/glf/wza, v1: top add/remove/fb/none, stop) '
                 'generated per family from {Fair,Rate} x {consecutive, skewed, near-equal, random priorities} x {H = n, small, '
                 'multiple, random} x buffered/unbuffered inputs, release groupings none/one/some/all, fault-injecting dividers; '
                 'every op is one compared case; distinct = distinct (script prefix) is not measured, distinct request lines are counted'),
        'trusted_base': ['verif hook steppers (construct the real Discipline without starting main)'],
        'assumptions': ['handlers release only what they hold (API contract)'],
    },
    'C03': {
        'lean_targets': ['Cqos.Props.C03'],
        'theorems': ['Cqos.C03.jstep_inv', 'Cqos.C03.jrun_inv', 'Cqos.C03.c03_concat', 'Cqos.C03.c03_prefix',
                     'Cqos.C03.c03_nonempty', 'Cqos.C03.c03_join_le', 'Cqos.C03.c03_unite_big'],
        'runs': [{'cmd': 'jstepper', 'args': ['-family', 'mixed']}],
        'monitor_prefix': ['C03'],
        'level': 'proof',
        'level_text': ('Lean theorems by induction over ARBITRARY action lists of the join/unite machine (items or slices of '
                       'any lengths, ticker firings at any reading, releases, close, v1 Stop): the emitted slices always '
                       'concatenate to a prefix of the accepted input and to exactly the input once the discipline has '
                       'terminated after close; no emitted slice is empty; join slices have at most JoinSize elements; a '
                       'unite slice longer than JoinSize is one whole oversize input slice. The machine is tied to the real '
                       'v2 join, v2 unite and v1 join by the white-box stepper (real process/pass/isTimeouted called one at a '
                       'time; buffer, emitted slices with their memory identity class and control state compared after each op)'),
        'level_note': ('trusted: the stepper correspondence; the select loops (loop/loopUntimeouted, deferred pass) are covered '
                       'by the black-box runs and the regenerated skeleton facts, not by the stepper'),
        'rule': ('scripts of item/tick/close/release/stop over {join v1, join v2, unite v2} x copy/no-copy x timed/untimed, '
                 'slice lengths 0, 1, <JoinSize, =JoinSize, >JoinSize; ticks at half and twice the timeout; every op is one '
                 'compared case'),
        'trusted_base': ['verif hook steppers for join/unite (construct the real Discipline without starting main)'],
        'assumptions': [],
    },
}
